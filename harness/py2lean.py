"""py2lean: a translator from a small, typed subset of Python to Lean 4 definitions (DESIGN.md section 0.8).

The functions listed in `TARGETS` are re-read from /repo's working tree with `ast` on every run and rewritten as Lean
definitions in `lean/RV/Generated/*.lean`.  `lean/RV/Bridge/*.lean` proves each generated definition equal to the
hand-written model the property theorems are about, so an edit of one of these functions changes a Lean term and the
bridge theorem - a proof obligation - no longer checks.

Subset: positional arguments; assignments to names, tuple unpacking of a translated call, augmented assignments,
`list[i] = v`; `if/else` whose branches assign (a guard whose body is `raise` becomes a conjunct of the separate
`<name>_accepts` definition, and the main definition is the function on the accepted inputs); `while` (a fuel-indexed
auxiliary definition over the variables the body assigns); `return` of an expression or tuple; the walrus operator in
an `if` test.  Expressions: `+ - * /`, unary minus, comparisons, `& and or`, integer and float literals, list literals
and indexing, and the calls `floor remainder fmod fabs sign int float round` plus the float-subclass constructors.

Typing: every expression is `I` (Python int: exact Lean `Int`), `F` (a binary64 value: Lean `Rat` holding the value it
denotes) or `B`.  In mode `f64` an operation with an `F` operand (and every `/`) is the correctly rounded operation of
`RV.F64` (`fadd fsub fmul fdiv`), exactly as CPython/numpy evaluate it; in mode `exact` it is the operation on the
rationals (the abstraction level of `RV.Model.Angles`).  Anything outside the subset raises `Unsupported`, which the
harness reports as a broken tie (never silently skipped).
"""
from __future__ import annotations

import ast
import os
import re
from fractions import Fraction
from pathlib import Path

VERIF = Path(__file__).resolve().parent.parent
REPO = Path(os.environ.get("VERIF_REPO", "/repo"))
SRC = REPO / "src" / "resonaate"


class Unsupported(Exception):
    pass


LEAN_T = {"FN1": "Rat → Rat", "DF": "List Rat", "DI": "List Int", "FN2": "Rat → Rat → Rat", "OE": "Option Ev", "I": "Int", "F": "Rat", "B": "Bool", "L": "List Int", "S": "String", "OF": "Option Rat", "E": "Ev", "LE": "List Ev"}
IDENT = {"float", "JulianDate", "ScenarioTime", "cls"}


def lean_ty(t):
    if isinstance(t, tuple):
        return " × ".join(lean_ty(x) for x in t)
    return LEAN_T[t]


def frac_lit(x: float) -> str:
    f = Fraction(*float(x).as_integer_ratio())
    if f.denominator == 1:
        return f"({f.numerator} : Rat)"
    return f"(({f.numerator} : Rat) / {f.denominator})"


class FnTr:
    def __init__(self, lean_name, fdef: ast.FunctionDef, mode, ptypes, consts, known, fuel=64):
        self.lean_name, self.fdef, self.mode, self.consts, self.known, self.fuel = lean_name, fdef, mode, consts, known, fuel
        args = [a.arg for a in fdef.args.args]
        if (fdef.args.vararg or fdef.args.kwarg or fdef.args.kwonlyargs) and not getattr(fdef, "_drop_varargs", False):
            raise Unsupported(f"{lean_name}: only positional parameters")
        self.params = []
        for a in args:
            if a == "cls" or ptypes.get(a) == "-":
                continue
            if a not in ptypes:
                raise Unsupported(f"{lean_name}: no declared type for parameter {a}")
            self.params.append((a, ptypes[a]))
        self.extra_params = []
        self.local_types = {}
        self.skip_locals = set()
        self.aux = []  # auxiliary definitions (loops)
        self.guards = []
        self.ret_type = None
        self.nloop = 0

    # ---- names -------------------------------------------------------------------------------
    @staticmethod
    def v(name):
        return {"self": "self_", "from": "from_", "end": "end_", "at": "at_"}.get(name, name)

    # ---- expressions ---------------------------------------------------------------------------
    def toF(self, e, t):
        if t == "F":
            return e
        if t == "OF":  # an optional float used as a number: only reached behind its `is not None` test
            return f"({e}.getD 0)"
        if t == "I":
            m = re.fullmatch(r"\((-?\d+) : Int\)", e)
            return f"({m.group(1)} : Rat)" if m else f"(({e} : Int) : Rat)"
        raise Unsupported(f"cannot use {t} as a float: {e}")

    def arith(self, op, a, ta, b, tb):
        sym = {ast.Add: "+", ast.Sub: "-", ast.Mult: "*", ast.Div: "/"}[type(op)]
        if ta == "I" and tb == "I" and sym != "/":
            return f"({a} {sym} {b})", "I"
        fa, fb = self.toF(a, ta), self.toF(b, tb)
        if self.mode in ("exact", "decimal"):
            return f"({fa} {sym} {fb})", "F"
        fn = {"+": "fadd", "-": "fsub", "*": "fmul", "/": "fdiv"}[sym]
        return f"({fn} {fa} {fb})", "F"

    def expr(self, n, env):
        key = ast.unparse(n) if isinstance(n, (ast.Attribute, ast.Subscript, ast.Call, ast.BinOp, ast.Compare)) else None
        if key is not None and key in self.consts:
            e, t = self.consts[key]
            return (f"({e} = true)" if t == "B" else e), t
        if isinstance(n, ast.Call) and ast.unparse(n.func) in self.consts:
            e, t = self.consts[ast.unparse(n.func)]
            return (f"({e} = true)" if t == "B" else e), t
        if isinstance(n, ast.Attribute) and isinstance(n.value, ast.Name) and n.value.id == "Explanation":
            return f"\"{n.attr}\"", "S"
        if isinstance(n, ast.Attribute) and isinstance(n.value, ast.Name) and env.get(n.value.id) == "E" and n.attr in ("time", "end_time", "start_time"):
            return f"{self.v(n.value.id)}.{n.attr}", "F"
        if isinstance(n, ast.Call) and isinstance(n.func, ast.Name) and n.func.id == "isinstance" and isinstance(n.args[0], ast.Name) \
                and env.get(n.args[0].id) == "E":
            # the event classes with a duration: the class (or tuple of classes) the code tests for must be one of these
            tested = {x.id for x in ast.walk(n.args[1]) if isinstance(x, ast.Name)} | {x.attr for x in ast.walk(n.args[1]) if isinstance(x, ast.Attribute)}
            if not tested or not tested <= {"ScheduledFiniteThrust", "ScheduledFiniteBurn", "ScheduledFiniteManeuver", "ContinuousStateChangeEvent"}:
                raise Unsupported(f"isinstance test against {ast.unparse(n.args[1])}")
            return f"({self.v(n.args[0].id)}.isBurn = true)", "B"
        if isinstance(n, ast.Compare) and len(n.ops) == 1 and isinstance(n.ops[0], ast.In):
            a, ta = self.expr(n.left, env)
            b, tb = self.expr(n.comparators[0], env)
            if (ta, tb) != ("E", "LE"):
                raise Unsupported("membership test")
            return f"({b}.contains {a} = true)", "B"
        if isinstance(n, ast.UnaryOp) and isinstance(n.op, ast.Not):
            e, t = self.expr(n.operand, env)
            if t != "B":
                raise Unsupported("not on a non-boolean")
            return f"(¬ {e})", "B"
        if isinstance(n, ast.Compare) and len(n.ops) == 1 and isinstance(n.ops[0], (ast.IsNot, ast.Is)) \
                and isinstance(n.comparators[0], ast.Constant) and n.comparators[0].value is None:
            e, t = self.expr(n.left, env)
            if t != "OF":
                raise Unsupported("None test on a non-optional")
            return (f"({e}.isSome = true)" if isinstance(n.ops[0], ast.IsNot) else f"({e}.isNone = true)"), "B"
        if isinstance(n, ast.Constant):
            if n.value is None:
                return "(none : Option Ev)", "OE"
            if isinstance(n.value, bool):
                return ("True" if n.value else "False"), "B"
            if isinstance(n.value, int):
                return f"({n.value} : Int)", "I"
            if isinstance(n.value, float):
                if self.mode == "decimal":
                    # the literal as written (its shortest decimal form), not its binary64 value: the level of the sidereal-time model
                    f = Fraction(repr(n.value))
                    return (f"(({f.numerator} : Rat) / {f.denominator})" if f.denominator != 1 else f"({f.numerator} : Rat)"), "F"
                return frac_lit(n.value), "F"
            raise Unsupported(f"constant {n.value!r}")
        if isinstance(n, ast.Name):
            if n.id in self.consts and n.id not in env:
                return self.consts[n.id]
            if n.id in env:
                return (f"({self.v(n.id)} = true)" if env[n.id] == "B" else self.v(n.id)), env[n.id]
            raise Unsupported(f"unknown name {n.id}")
        if isinstance(n, ast.Attribute):
            key = ast.unparse(n)
            if key in self.consts:
                return self.consts[key]
            raise Unsupported(f"attribute {key}")
        if isinstance(n, ast.IfExp) or (isinstance(n, ast.Call) and ast.unparse(n.func) in ("np.where", "where") and len(n.args) == 3):
            test, a_, b_ = (n.test, n.body, n.orelse) if isinstance(n, ast.IfExp) else n.args
            c, tc = self.expr(test, env)
            a, ta = self.expr(a_, env)
            b, tb = self.expr(b_, env)
            if tc != "B":
                raise Unsupported("non-boolean condition")
            if {ta, tb} == {"E", "OE"}:
                a, b, ta = (f"(some {a})" if ta == "E" else a), (f"(some {b})" if tb == "E" else b), "OE"
            elif ta != tb:
                a, b, ta = self.toF(a, ta), self.toF(b, tb), "F"
            return f"(if {c} then {a} else {b})", ta
        if isinstance(n, ast.BinOp) and isinstance(n.op, ast.Mod):
            a, ta = self.expr(n.left, env)
            b, tb = self.expr(n.right, env)
            if ta == tb == "I":
                return f"(pyModInt {a} {b})", "I"
            return f"(pyRemainder {self.toF(a, ta)} {self.toF(b, tb)})", "F"
        if isinstance(n, ast.UnaryOp) and isinstance(n.op, ast.USub):
            e, t = self.expr(n.operand, env)
            return f"(-{e})", t
        if isinstance(n, ast.BinOp) and isinstance(n.op, ast.Pow) and isinstance(n.right, ast.Constant) and isinstance(n.right.value, int) \
                and 0 <= n.right.value <= 8 and self.mode in ("exact", "decimal"):
            a, ta = self.expr(n.left, env)
            return (f"({a} ^ {n.right.value})", ta) if ta == "I" else (f"({self.toF(a, ta)} ^ {n.right.value})", "F")
        if isinstance(n, ast.BinOp):
            if isinstance(n.op, ast.BitAnd):
                a, ta = self.expr(n.left, env)
                b, tb = self.expr(n.right, env)
                if ta == tb == "B":
                    return f"({a} ∧ {b})", "B"
                raise Unsupported("& on non-booleans")
            if type(n.op) not in (ast.Add, ast.Sub, ast.Mult, ast.Div):
                raise Unsupported(f"operator {type(n.op).__name__}")
            a, ta = self.expr(n.left, env)
            b, tb = self.expr(n.right, env)
            return self.arith(n.op, a, ta, b, tb)
        if isinstance(n, ast.BoolOp):
            parts = [self.expr(x, env) for x in n.values]
            if any(t != "B" for _, t in parts):
                raise Unsupported("and/or on non-booleans")
            j = " ∧ " if isinstance(n.op, ast.And) else " ∨ "
            return "(" + j.join(e for e, _ in parts) + ")", "B"
        if isinstance(n, ast.Compare):
            out = []
            left = n.left
            for op, right in zip(n.ops, n.comparators):
                a, ta = self.expr(left, env)
                b, tb = self.expr(right, env)
                if ta != tb or ta == "OF":
                    a, b = self.toF(a, ta), self.toF(b, tb)
                sym = {ast.Lt: "<", ast.LtE: "≤", ast.Gt: ">", ast.GtE: "≥", ast.Eq: "=", ast.NotEq: "≠"}.get(type(op))
                if sym is None:
                    raise Unsupported(f"comparison {type(op).__name__}")
                out.append(f"{a} {sym} {b}")
                left = right
            return ("(" + " ∧ ".join(out) + ")"), "B"
        if isinstance(n, ast.List):
            parts = [self.expr(x, env) for x in n.elts]
            if any(t != "I" for _, t in parts):
                raise Unsupported("only lists of ints")
            return "([" + ", ".join(e for e, _ in parts) + "] : List Int)", "L"
        if isinstance(n, ast.Subscript):
            l, tl = self.expr(n.value, env)
            i, ti = self.expr(n.slice, env)
            if tl != "L" or ti != "I":
                raise Unsupported("subscript")
            return f"(pyGet {l} {i})", "I"
        if isinstance(n, ast.Call):
            return self.call(n, env)
        raise Unsupported(f"expression {type(n).__name__}: {ast.unparse(n)}")

    def call(self, n, env):
        if n.keywords:
            raise Unsupported("keyword arguments")
        f = ast.unparse(n.func)
        if f in self.consts and not n.args:  # e.g. finfo(float).resolution is handled as an attribute; plain calls not
            return self.consts[f]
        args = [self.expr(a, env) for a in n.args]
        if f in IDENT and len(args) == 1:
            e, t = args[0]
            return (self.toF(e, t), "F")
        if f == "floor" and len(args) == 1:
            e, t = args[0]
            return (e, "I") if t == "I" else (f"(ffloor {e})", "F")
        if f == "int" and len(args) == 1:
            e, t = args[0]
            return (e, "I") if t == "I" else (f"(ftrunc {e})", "I")
        if f in ("round", "around") and len(args) == 1:  # numpy.around and Python's round: half to even
            e, t = args[0]
            return (e, "I") if t == "I" else (f"(fround {e})", "I")
        if f == "remainder" and len(args) == 2:
            (a, ta), (b, tb) = args
            if ta == tb == "I":
                return f"(pyModInt {a} {b})", "I"
            return f"(pyRemainder {self.toF(a, ta)} {self.toF(b, tb)})", "F"
        if f == "fmod" and len(args) == 2:
            (a, ta), (b, tb) = args
            return f"(pyFmod {self.toF(a, ta)} {self.toF(b, tb)})", "F"
        if f == "sum" and len(args) == 1 and args[0][1] in ("DF", "DI"):
            return f"({args[0][0]}.sum)", ("F" if args[0][1] == "DF" else "I")
        if f in ("fabs", "abs") and len(args) == 1:
            return f"(pyAbs {self.toF(*args[0])})", "F"
        if f == "sign" and len(args) == 1:
            return f"(pySign {self.toF(*args[0])})", "F"
        if f in XKNOWN and f not in self.known:
            self.known[f] = XKNOWN[f]
        if f in self.known:
            lean, ptys, rty = self.known[f]
            if len(args) != len(ptys):
                raise Unsupported(f"arity of {f}")
            conv = []
            for (e, t), pt in zip(args, ptys):
                conv.append(f"(decide {e})" if t == pt == "B" else e if t == pt else self.toF(e, t) if pt == "F" else (_ for _ in ()).throw(Unsupported(f"argument type {t} for {pt}")))
            app = "(" + " ".join([lean] + conv) + ")"
            return (f"({app} = true)" if rty == "B" else app), rty
        raise Unsupported(f"call {f}")

    # ---- statements ----------------------------------------------------------------------------
    def assigned(self, stmts):
        out = []

        def add(x):
            if x not in out:
                out.append(x)

        for s in stmts:
            if isinstance(s, ast.Assign):
                for t in s.targets:
                    if isinstance(t, ast.Name):
                        add(t.id)
                    elif isinstance(t, ast.Tuple):
                        for e in t.elts:
                            add(e.id)
                    elif isinstance(t, ast.Subscript) and isinstance(t.value, ast.Name):
                        add(t.value.id)
                    else:
                        raise Unsupported("assignment target")
            elif isinstance(s, ast.AugAssign):
                add(s.target.id)
            elif isinstance(s, ast.If):
                for x in self.assigned(s.body) + self.assigned(s.orelse):
                    add(x)
            elif isinstance(s, ast.While):
                for x in self.assigned(s.body):
                    add(x)
            elif isinstance(s, ast.Expr) and isinstance(s.value, ast.Call) and isinstance(s.value.func, ast.Attribute) \
                    and s.value.func.attr == "append" and isinstance(s.value.func.value, ast.Name):
                add(s.value.func.value.id)
            elif isinstance(s, ast.For):
                for x in self.assigned(s.body):
                    add(x)
            elif isinstance(s, (ast.Expr, ast.Pass, ast.Continue)):
                pass
            else:
                raise Unsupported(f"statement {type(s).__name__} inside a block")
        return out

    def block(self, stmts, env, tail, ind):
        """Lean expression for `stmts` followed by `tail(env)` (a function giving the final expression)."""
        pad = "  " * ind
        if not stmts:
            return tail(env)
        s, rest = stmts[0], stmts[1:]
        if isinstance(s, ast.Expr) and isinstance(s.value, ast.Constant):  # docstring
            return self.block(rest, env, tail, ind)
        if isinstance(s, ast.Continue):
            return tail(env)
        if isinstance(s, ast.Assign) and len(s.targets) == 1 and isinstance(s.targets[0], ast.Name) and s.targets[0].id in self.skip_locals:
            # a vector-valued intermediate that only feeds helpers entering as parameters
            return self.block(rest, env, tail, ind)
        if isinstance(s, ast.Expr) and isinstance(s.value, ast.Call) and isinstance(s.value.func, ast.Attribute) and s.value.func.attr == "append":
            lst = s.value.func.value.id
            e, t = self.expr(s.value.args[0], env)
            if (env.get(lst), t) in (("DF", "F"), ("DI", "I")):
                # a `deque(maxlen=...)`: oldest first; the bound is the constructor's (a parameter, see `dq_maxlen`)
                return (f"let {self.v(lst)} : {lean_ty(env[lst])} := dqAppend {self.dq_maxlen} {self.v(lst)} {e};\n{pad}"
                        + self.block(rest, env, tail, ind))
            if env.get(lst) != "LE" or t != "E":
                raise Unsupported("append")
            return f"let {self.v(lst)} : List Ev := {self.v(lst)} ++ [{e}];\n{pad}" + self.block(rest, env, tail, ind)
        if isinstance(s, ast.Assign) and isinstance(s.targets[0], ast.Attribute) and not rest:
            # the method's result is what it stores on the object
            return self.block([ast.Return(value=s.value)], env, tail, ind)
        if isinstance(s, ast.Assign) and isinstance(s.targets[0], ast.Name) and isinstance(s.value, ast.List) and not s.value.elts \
                and self.local_types.get(s.targets[0].id) == "LE":
            env2 = dict(env, **{s.targets[0].id: "LE"})
            return f"let {self.v(s.targets[0].id)} : List Ev := [];\n{pad}" + self.block(rest, env2, tail, ind)
        if isinstance(s, ast.For):
            if not isinstance(s.target, ast.Name) or s.orelse:
                raise Unsupported("for target")
            it, tit = self.expr(s.iter, env)
            if tit != "LE":
                raise Unsupported("for over a non-list")
            ws = self.assigned(s.body)
            for w in ws:
                if w not in env:
                    raise Unsupported(f"{w} first assigned inside a loop")
            tupv = self.v(ws[0]) if len(ws) == 1 else "(" + ", ".join(self.v(w) for w in ws) + ")"
            env_b = dict(env, **{s.target.id: "E"})
            body = self.block(s.body, env_b, lambda e: tupv, ind + 2)
            return (f"let {tupv} := {it}.foldl (fun {tupv} {self.v(s.target.id)} =>\n{pad}    ({body})) {tupv};\n{pad}"
                    + self.block(rest, env, tail, ind))
        if isinstance(s, ast.Raise) and getattr(self, "raises_none", False):
            return "none"  # the function's result is an Option: `none` where the code raises
        if isinstance(s, ast.Return):
            if isinstance(s.value, ast.Tuple):
                parts = [self.expr(x, env) for x in s.value.elts]
                self.ret_type = tuple(t for _, t in parts)
                tup = "(" + ", ".join((f"decide {e}" if t == "B" else e) for e, t in parts) + ")"
                return f"some {tup}" if getattr(self, "raises_none", False) else tup
            e, t = self.expr(s.value, env)
            self.ret_type = t
            return f"decide {e}" if t == "B" else e
        if isinstance(s, ast.Assign):
            if len(s.targets) != 1:
                raise Unsupported("chained assignment")
            tg = s.targets[0]
            if isinstance(tg, ast.Name):
                e, t = self.expr(s.value, env)
                e = f"decide {e}" if t == "B" else e
                env2 = dict(env, **{tg.id: t})
                return f"let {self.v(tg.id)} : {lean_ty(t)} := {e};\n{pad}" + self.block(rest, env2, tail, ind)
            if isinstance(tg, ast.Tuple) and isinstance(s.value, ast.Tuple) and len(tg.elts) == len(s.value.elts):
                # a, b = x, y  (the right-hand sides are evaluated first: none of them may mention a target)
                names = {el.id for el in tg.elts}
                if any(isinstance(x, ast.Name) and x.id in names for v in s.value.elts for x in ast.walk(v)):
                    raise Unsupported("swap-style tuple assignment")
                seq = [ast.Assign(targets=[ast.Name(id=el.id, ctx=ast.Store())], value=v) for el, v in zip(tg.elts, s.value.elts)]
                return self.block(seq + rest, env, tail, ind)
            if isinstance(tg, ast.Tuple):
                e, t = self.expr(s.value, env)
                if not isinstance(t, tuple) or len(t) != len(tg.elts):
                    raise Unsupported("tuple unpacking")
                env2 = dict(env)
                for el, ty in zip(tg.elts, t):
                    env2[el.id] = ty
                names = ", ".join(self.v(el.id) for el in tg.elts)
                return f"let ({names}) := {e};\n{pad}" + self.block(rest, env2, tail, ind)
            if isinstance(tg, ast.Subscript) and isinstance(tg.value, ast.Name) and env.get(tg.value.id) == "L":
                i, ti = self.expr(tg.slice, env)
                e, t = self.expr(s.value, env)
                if ti != "I" or t != "I":
                    raise Unsupported("list store")
                nm = self.v(tg.value.id)
                return f"let {nm} : List Int := pySet {nm} {i} {e};\n{pad}" + self.block(rest, env, tail, ind)
            raise Unsupported("assignment target")
        if isinstance(s, ast.AugAssign):
            if not isinstance(s.target, ast.Name):
                raise Unsupported(f"augmented assignment to {ast.unparse(s.target)}")
            cur = ast.Name(id=s.target.id, ctx=ast.Load())
            new = ast.Assign(targets=[ast.Name(id=s.target.id, ctx=ast.Store())], value=ast.BinOp(left=cur, op=s.op, right=s.value))
            return self.block([new] + rest, env, tail, ind)
        if isinstance(s, ast.If):
            # hoist a walrus out of the test
            pre = []
            test = s.test
            for sub in ast.walk(test):
                if isinstance(sub, ast.NamedExpr):
                    pre.append(ast.Assign(targets=[ast.Name(id=sub.target.id, ctx=ast.Store())], value=sub.value))
            if pre:
                class R(ast.NodeTransformer):
                    def visit_NamedExpr(self, node):
                        return ast.Name(id=node.target.id, ctx=ast.Load())
                test = R().visit(ast.parse(ast.unparse(test), mode="eval").body)
                return self.block(pre + [ast.If(test=test, body=s.body, orelse=s.orelse)] + rest, env, tail, ind)
            c, tc = self.expr(test, env)
            if tc != "B":
                raise Unsupported("non-boolean test")
            if any(isinstance(x, ast.Raise) for x in s.body) and not getattr(self, "raises_none", False):
                if s.orelse or ind != 1:
                    raise Unsupported("raise outside a top-level guard")
                need, keep = c, []
                for nm, b in reversed(self._binds):  # a bound name the test mentions, and whatever its own definition mentions
                    if re.search(r"\b" + re.escape(nm) + r"\b", need):
                        keep.append(b)
                        need += " " + b
                binds = "".join(reversed(keep))
                self.guards.append(f"{binds}decide (¬ {c})")
                return self.block(rest, env, tail, ind)
            if any(isinstance(x, (ast.Return, ast.Continue, ast.Raise)) for x in ast.walk(s)):
                # if c: return a   (rest is the else branch; a branch that does not return or continue goes on with the rest)
                a = self.block(s.body + rest, env, tail, ind + 1)
                b = self.block((s.orelse or []) + rest, env, tail, ind + 1)
                return f"if {c} then\n{pad}  ({a})\n{pad}else\n{pad}  ({b})"
            # `_cb` is the branch-local temporary introduced by the callback rewrite (never read after the branch)
            ws = [w for w in self.assigned(s.body + s.orelse) if w != "_cb"]
            for w in ws:
                if w not in env:
                    raise Unsupported(f"{w} first assigned inside a branch")

            def tup(e):
                return self.v(ws[0]) if len(ws) == 1 else "(" + ", ".join(self.v(w) for w in ws) + ")"

            a = self.block(s.body, env, tup, ind + 1)
            b = self.block(s.orelse, env, tup, ind + 1)
            return f"let {tup(env)} := if {c} then\n{pad}    ({a})\n{pad}  else\n{pad}    ({b});\n{pad}" + self.block(rest, env, tail, ind)
        if isinstance(s, ast.While):
            ws = self.assigned(s.body)
            for w in ws:
                if w not in env:
                    raise Unsupported(f"{w} first assigned inside a loop")
            used = []
            for sub in ast.walk(s):
                if isinstance(sub, ast.Name) and sub.id in env and sub.id not in ws and sub.id not in used:
                    used.append(sub.id)
            self.nloop += 1
            lname = f"{self.lean_name}_loop{self.nloop}"
            c, tc = self.expr(s.test, env)
            tupv = self.v(ws[0]) if len(ws) == 1 else "(" + ", ".join(self.v(w) for w in ws) + ")"
            tupt = lean_ty(tuple(env[w] for w in ws)) if len(ws) > 1 else lean_ty(env[ws[0]])
            fv = " ".join(f"({self.v(u)} : {lean_ty(env[u])})" for u in used)
            wv = " ".join(f"({self.v(w)} : {lean_ty(env[w])})" for w in ws)
            call_next = f"{lname} " + " ".join(self.v(u) for u in used) + " fuel " + " ".join(self.v(w) for w in ws)
            body = self.block(s.body, env, lambda e: call_next, 3)
            self.aux.append(
                f"/-- the `while` loop of `{self.fdef.name}` (line {s.lineno}); `fuel` bounds the iterations -/\n"
                f"def {lname} {fv} : Nat → {' → '.join(lean_ty(env[w]) for w in ws)} → {tupt}\n"
                f"  | 0, {', '.join(self.v(w) for w in ws)} => {tupv}\n"
                f"  | fuel + 1, {', '.join(self.v(w) for w in ws)} =>\n"
                f"    if {c} then\n      ({body})\n    else {tupv}\n"
            )
            first = f"{lname} " + " ".join(self.v(u) for u in used) + f" {self.fuel} " + " ".join(self.v(w) for w in ws)
            return f"let {tupv} := {first};\n{pad}" + self.block(rest, env, tail, ind)
        if isinstance(s, ast.Pass):
            return self.block(rest, env, tail, ind)
        raise Unsupported(f"statement {type(s).__name__}")

    def translate(self):
        env = {a: t for a, t in self.params + [x for x in self.extra_params if isinstance(x[1], str) and not x[1].startswith("FN")]}
        self._binds = []
        # guards may refer to variables bound before them: record top-level lets seen so far
        body_stmts = list(self.fdef.body)
        orig_block = self.block

        def tracking_block(stmts, env, tail, ind):
            if ind == 1 and stmts and isinstance(stmts[0], ast.Assign) and isinstance(stmts[0].targets[0], ast.Name):
                tg = stmts[0].targets[0]
                try:
                    e, t = self.expr(stmts[0].value, env)
                except Unsupported:
                    return orig_block(stmts, env, tail, ind)
                self._binds.append((self.v(tg.id), f"let {self.v(tg.id)} : {lean_ty(t)} := {e}; "))
            return orig_block(stmts, env, tail, ind)

        self.block = tracking_block
        body = self.block(body_stmts, env, lambda e: (_ for _ in ()).throw(Unsupported("function falls off its end")), 1)
        ps = " ".join(f"({self.v(a)} : {lean_ty(t)})" for a, t in self.params + self.extra_params)
        out = "".join(self.aux)
        out += f"/-- `{self.fdef.name}` (line {self.fdef.lineno}), translated statement by statement -/\n"
        rty = f"Option ({lean_ty(self.ret_type)})" if getattr(self, "raises_none", False) else lean_ty(self.ret_type)
        out += f"def {self.lean_name} {ps} : {rty} :=\n  {body}\n"
        if self.guards:
            out += f"\n/-- the inputs `{self.fdef.name}` accepts (none of its `raise` guards fires) -/\n"
            out += f"def {self.lean_name}_accepts {ps} : Bool :=\n  " + " &&\n  ".join(f"({g})" for g in self.guards) + "\n"
        return out


def find_def(tree, qual):
    parts = qual.split(".")
    body = tree.body
    node = None
    for p in parts:
        node = next((n for n in body if isinstance(n, (ast.FunctionDef, ast.ClassDef)) and n.name == p), None)
        if node is None:
            raise Unsupported(f"{qual}: not found in the source")
        body = node.body
    return node


XKNOWN = {"fpe_equals": ("RV.Generated.Maths.fpe_equals", ["F", "F"], "B"),
          "wrapAngleNegPiPi": ("RV.Generated.Maths.wrapAngleNegPiPi", ["F"], "F"),
          "wrapAngle2Pi": ("RV.Generated.Maths.wrapAngle2Pi", ["F"], "F")}

CONSTS = {
    "const.TWOPI": ("RV.Generated.TWOPI", "F"),
    "const.PI": ("RV.Generated.PI", "F"),
    "finfo(float).resolution": ("RV.Generated.FPE_RESOLUTION", "F"),
}

# file, qualified name, Lean name, mode, parameter types, loop fuel
TARGETS = {
    "Stardate": {
        "file": "physics/time/stardate.py",
        "mode": "f64",
        "fns": [
            ("days2mdh", "days2mdh", {"year": "F", "day_of_year": "F"}, 12),
            ("getCalendarDate", "getCalendarDate", {"julian_date": "F"}, 0),
            ("JulianDate.getJulianDate", "getJulianDate",
             {"year": "I", "month": "I", "day": "I", "hour": "I", "minute": "I", "second": "F"}, 0),
            ("JulianDate.__add__", "jdAdd", {"self": "F", "other_julian_date": "F"}, 0),
            ("JulianDate.__sub__", "jdSub", {"self": "F", "other_julian_date": "F"}, 0),
            ("JulianDate.__mul__", "jdMul", {"self": "F", "other_julian_date": "F"}, 0),
            ("ScenarioTime.__mul__", "stMul", {"self": "F", "other_scenario_time": "F"}, 0),
            ("JulianDate.convertToScenarioTime", "convertToScenarioTime", {"self": "F", "julian_date_start": "F"}, 0),
            ("ScenarioTime.convertToJulianDate", "convertToJulianDate", {"self": "F", "julian_date_start": "F"}, 0),
        ],
    },
    "Sensors": {
        "file": "sensors/sensor_base.py",
        "mode": "exact",
        "fns": [
            ("Sensor.isVisible", "sensorIsVisible",
             {"self": "-", "tgt_eci_state": "-", "viz_cross_section": "-", "reflectivity": "-", "slant_range_sez": "-"}, 0,
             {"params": [("minimum_range", "OF"), ("maximum_range", "OF"), ("range_", "F"), ("los", "B"), ("az", "F"),
                         ("el", "F"), ("el0", "F"), ("el1", "F"), ("az0", "F"), ("az1", "F")],
              "consts": {"self.minimum_range": ("minimum_range", "OF"), "self.maximum_range": ("maximum_range", "OF"),
                         "getRange": ("range_", "F"), "lineOfSight": ("los", "B"), "getAzimuth": ("az", "F"),
                         "getElevation": ("el", "F"), "self.el_mask[0]": ("el0", "F"), "self.el_mask[1]": ("el1", "F"),
                         "self.az_mask[0]": ("az0", "F"), "self.az_mask[1]": ("az1", "F")}}),
            ("Optical.isVisible", "opticalIsVisible",
             {"self": "-", "tgt_eci_state": "-", "viz_cross_section": "-", "reflectivity": "-", "slant_range_sez": "-"}, 0,
             {"file": "sensors/optical.py",
              "skip": ["jd", "sun_eci_position", "boresight_eci", "solar_phase_angle", "target_sun_unit_vector_eci"],
              "params": [("base_ok", "B"), ("base_reason", "S"), ("flux", "F"), ("vismag", "F"), ("detectable", "F"), ("galactic_ok", "B"),
                         ("is_space", "B"), ("space_lit", "B"), ("obscured", "B"), ("ground_lit", "B")],
              "consts": {"super().isVisible": ("(base_ok, base_reason)", ("B", "S")), "calculateIncidentSolarFlux": ("flux", "F"),
                         "apparentVisualMagnitude": ("vismag", "F"), "self.detectable_vismag": ("detectable", "F"),
                         "checkGalacticExclusionZone": ("galactic_ok", "B"),
                         "self.host.agent_type == PlatformLabel.SPACECRAFT": ("is_space", "B"),
                         "checkSpaceSensorLightingConditions": ("space_lit", "B"),
                         "checkSpaceSensorEarthLimbObscuration": ("obscured", "B"),
                         "checkGroundSensorLightingConditions": ("ground_lit", "B")}}),
            ("Radar.isVisible", "radarIsVisible",
             {"self": "-", "tgt_eci_state": "-", "viz_cross_section": "-", "reflectivity": "-", "slant_range_sez": "-"}, 0,
             {"file": "sensors/radar.py",
              "params": [("base_ok", "B"), ("base_reason", "S"), ("range_", "F"), ("max_range_to", "F")],
              "consts": {"super().isVisible": ("(base_ok, base_reason)", ("B", "S")), "getRange": ("range_", "F"),
                         "self.maximumRangeTo": ("max_range_to", "F")}}),
        ],
    },
    "Geometry": {
        "file": "physics/sensor_utils.py",
        "mode": "exact",
        "imports": ["RV.Generated.Maths"],
        "fns": [
            ("lineOfSight", "lineOfSight", {"eci_position_1": "-", "eci_position_2": "-"}, 0,
             {"params": [("d12", "F"), ("n1sq", "F"), ("n2sq", "F"), ("R2", "F")],
              "consts": {"dot(eci_position_1, eci_position_2)": ("d12", "F"), "norm(eci_position_1) ** 2": ("n1sq", "F"),
                         "norm(eci_position_2) ** 2": ("n2sq", "F"), "Earth.radius ** 2": ("R2", "F")}}),
            # the branch cascade of the visible-Sun fraction on the three angles and two distances it computes (C14; scales C13's radiation
            # pressure and C02's solar flux); `sqrt` and `arccos` of the partial branch are function parameters
            ("calculateSunVizFraction", "sunVizFraction", {"tgt_eci_position": "-", "sun_eci_position": "-"}, 0,
             {"skip": ["sat_sun_vector"],
              "params": [("a", "F"), ("b", "F"), ("c", "F"), ("sun_dist", "F"), ("sat_sun_dist", "F"), ("sqrt", "FN1"), ("arccos", "FN1")],
              "known": {"sqrt": ("sqrt", ["F"], "F"), "arccos": ("arccos", ["F"], "F")},
              "consts": {"arcsin(Sun.radius / norm(sat_sun_vector))": ("a", "F"), "arcsin(Earth.radius / norm(tgt_eci_position))": ("b", "F"),
                         "safeArccos": ("c", "F"), "norm(sun_eci_position)": ("sun_dist", "F"), "norm(sat_sun_vector)": ("sat_sun_dist", "F"),
                         "PI": ("RV.Generated.PI", "F")}}),
            ("ConicFoV.inFieldOfView", "conicInFieldOfView", {"self": "-", "pointing_sez": "-", "background_sez": "-"}, 0,
             {"file": "sensors/field_of_view.py", "params": [("angle", "F"), ("cone_angle", "F")],
              "consts": {"subtendedAngle": ("angle", "F"), "self.cone_angle": ("cone_angle", "F")}}),
            ("Sensor.canSlew", "canSlew", {"self": "-", "slant_range_sez": "-"}, 0,
             {"file": "sensors/sensor_base.py",
              "params": [("slew_rate", "F"), ("host_time", "F"), ("time_last_tasked", "F"), ("delta", "F")],
              "consts": {"self.deltaBoresight": ("delta", "F"), "self.slew_rate": ("slew_rate", "F"), "self.host.time": ("host_time", "F"),
                         "self.time_last_tasked": ("time_last_tasked", "F")}}),
            ("RectangularFoV.inFieldOfView", "rectInFieldOfView", {"self": "-", "pointing_sez": "-", "background_sez": "-"}, 0,
             {"file": "sensors/field_of_view.py",
              "params": [("az_p", "F"), ("el_p", "F"), ("az_b", "F"), ("el_b", "F"), ("az_full", "F"), ("el_full", "F")],
              "consts": {"getAzimuth(pointing_sez)": ("az_p", "F"), "getElevation(pointing_sez)": ("el_p", "F"),
                         "getAzimuth(background_sez)": ("az_b", "F"), "getElevation(background_sez)": ("el_b", "F"),
                         "self.azimuth_angle": ("az_full", "F"), "self.elevation_angle": ("el_full", "F")}}),
        ],
    },
    "Agents": {
        "file": "agents/agent_base.py",
        "mode": "exact",
        "imports": ["RV.Generated.Maths"],
        "fns": [
            ("Agent.prunePropagateEvents", "prunePropagateEvents", {"self": "-"}, 0,
             {"params": [("now", "F"), ("propagate_event_queue", "LE")], "keep_isinstance": True, "locals": {"relevant_events": "LE"},
              "consts": {"self._time": ("now", "F"), "self.propagate_event_queue": ("propagate_event_queue", "LE")}}),
        ],
    },
    "Thrust": {
        # the event functions scipy's solver watches for sign changes, and the on/off decision taken at a root (C15, C01)
        "file": "dynamics/integration_events/finite_thrust.py",
        "mode": "exact",
        "imports": ["RV.Generated.Maths"],
        "fns": [
            ("ScheduledImpulse.__call__", "impulseEvent", {"self": "-", "time": "F", "state": "-"}, 0,
             {"file": "dynamics/integration_events/scheduled_impulse.py",
              "params": [("impulse_time", "F")], "consts": {"self.time": ("impulse_time", "F")}}),
            ("ScheduledFiniteThrust.__call__", "thrustEvent", {"self": "-", "time": "F", "state": "-"}, 0,
             {"params": [("start_time", "F"), ("end_time", "F"), ("active", "B")],
              "consts": {"self.start_time": ("start_time", "F"), "self.end_time": ("end_time", "F"), "self.active": ("active", "B")}}),
            # returns (self.active afterwards, whether a thrust function is handed to the propagator)
            ("ScheduledFiniteThrust.getStateChangeCallback", "getStateChangeCallback", {"self": "-", "time": "F"}, 0,
             {"params": [("end_time", "F"), ("active", "B")],
              "consts": {"self.end_time": ("end_time", "F")},
              "object_state": ({"self.active": "active"}, {"EventStack.pushEvent"},
                               {"None": "(active, False)", "self.thrust_func": "(active, True)"})}),
        ],
    },
    "Detect": {
        # the bookkeeping of the three maneuver detectors and the hypothesis test they hand their statistic to (C17);
        # each `__call__` returns the object's new fields, the statistic and the degrees of freedom it passes to `test`
        "file": "estimation/maneuver_detection.py",
        "mode": "exact",
        "fns": [
            ("oneSidedChiSquareTest", "oneSidedChiSquareTest", {"metric": "F", "alpha": "F", "dof": "F", "runs": "I"}, 0,
             {"file": "physics/statistics.py", "params": [("isf", "FN2")], "known": {"chi2.isf": ("isf", ["F", "F"], "F")}}),
            ("StandardNis.__call__", "standardCall", {"self": "-", "residual": "-", "innov_cvr": "-"}, 0,
             {"drop_varargs": ["test"], "kw_defaults": ["oneSidedChiSquareTest"], "params": [("dim", "I"), ("q", "F")],
              "consts": {"residual.shape[0]": ("dim", "I"), "chiSquareQuadraticForm": ("q", "F")},
              "object_state": ({"self.metric": "metric"}, set(), {"not test(self.metric, self.threshold, dof)": "(metric, dof)"})}),
            # the two deques are created with `maxlen=window_size` in `__init__` (modelled: the bound enters as a parameter)
            ("SlidingNis.__call__", "slidingCall", {"self": "-", "residual": "-", "innov_cvr": "-"}, 0,
             {"drop_varargs": ["test"], "kw_defaults": ["oneSidedChiSquareTest"], "dq_maxlen": "window_size",
              "params": [("dim", "I"), ("q", "F"), ("window_size", "I"), ("nis_list", "DF"), ("dim_list", "DI")],
              "consts": {"residual.shape[0]": ("dim", "I"), "chiSquareQuadraticForm": ("q", "F")},
              "object_state": ({"self.metric": "metric", "self.nis_list": "nis_list", "self.dim_list": "dim_list"}, set(),
                               {"not test(self.metric, self.threshold, dof)": "(nis_list, dim_list, metric, dof)"})}),
            ("FadingMemoryNis.__call__", "fadingCall", {"self": "-", "residual": "-", "innov_cvr": "-"}, 0,
             {"drop_varargs": ["test"], "kw_defaults": ["oneSidedChiSquareTest"],
              "params": [("dim", "I"), ("q", "F"), ("delta", "F"), ("prior_nis", "F"), ("total_dim", "I"), ("total", "I")],
              "consts": {"residual.shape[0]": ("dim", "I"), "chiSquareQuadraticForm": ("q", "F"), "self.delta": ("delta", "F")},
              "object_state": ({"self.metric": "metric", "self.prior_nis": "prior_nis", "self.total_dim": "total_dim", "self.total": "total"}, set(),
                               {"not test(self.metric, self.threshold, dof)": "(prior_nis, total_dim, total, metric, dof)"})}),
        ],
    },
    "EventsQuery": {
        # which event rows a step's query selects (C01): scope, the window test on the stored Julian dates, the addressed instance
        "file": "data/events/__init__.py",
        "mode": "exact",
        "fns": [
            ("getRelevantEvents", "getRelevantEvents", {}, 0,
             {"sql_filter": ({"scope": "I", "start_time_jd": "F", "end_time_jd": "F", "scope_instance_id": "I"},
                             {"event_scope": "I", "julian_date_lb": "F", "julian_date_ub": "F", "scope_instance_id": "OI"})}),
        ],
    },
    "Lambert": {
        # the discrete logic around the Lambert solvers (C20): which way round, and whether two observations belong to one pass
        "file": "physics/orbit_determination/lambert.py",
        "mode": "exact",
        "fns": [
            ("determineTransferDirection", "determineTransferDirection", {"position_vector": "-", "transit_time": "F"}, 0,
             {"params": [("period", "F")], "consts": {"keplerThirdLaw": ("period", "F")}}),
            # returns (inside one period, the transit time); a non-positive transit raises (the `_accepts` guard)
            ("InitialOrbitDetermination.checkSinglePass", "checkSinglePass", {"self": "-", "ob1_eci": "-", "ob1_jdate": "F", "ob2_jdate": "F"}, 0,
             {"file": "estimation/initial_orbit_determination.py", "skip": ["sma"], "params": [("period", "F")],
              "consts": {"getPeriod": ("period", "F"), "DAYS2SEC": ("RV.Generated.DAYS2SEC", "F")},
              "raises_none": True,
              "object_state": ({}, set(), {"False": "(False, 0.0)", "transit_time": "(True, transit_time)"})}),
        ],
    },
    "ScenarioRun": {
        # how many steps `Scenario.propagateTo` takes towards a target Julian date, and when it refuses (C05, C09, C10)
        "file": "scenario/scenario.py",
        "mode": "f64",
        "imports": ["RV.Generated.Stardate"],
        "fns": [
            ("Scenario.propagateTo", "propagateToSteps", {"self": "-", "target_time": "F"}, 0,
             {"count_loop": True,
              "params": [("jd0", "F"), ("clock_time", "F"), ("dt", "F")],
              "consts": {"target_time.convertToScenarioTime(self.clock.julian_date_start)":
                         ("(RV.Generated.Stardate.convertToScenarioTime target_time jd0)", "F"),
                         "self.clock.time": ("clock_time", "F"), "self.physics_time_step": ("dt", "F")},
              "object_state": ({}, {"self.logger.info", "self.logger.error"}, {})}),
        ],
    },
    "Sidereal": {
        # the sidereal-time polynomials (C04, C11), literals read as the decimals they are written as
        "file": "physics/time/conversions.py",
        "mode": "decimal",
        "imports": ["RV.Generated.Maths"],
        "fns": [
            ("greenwichMeanTime", "greenwichMeanTime", {"julian_date": "F"}, 0,
             {"consts": {"const.DEG2RAD": ("RV.Generated.DEG2RAD", "F")}}),
            ("greenwichApparentTime", "greenwichApparentTime", {"year": "I", "elapsed_days": "F", "eq_equinox": "F"}, 0,
             {"params": [("jd_jan1", "F")],
              "consts": {"JulianDate.getJulianDate(year, 1, 1, 0, 0, 0)": ("jd_jan1", "F")}}),
        ],
    },
    "Conversions": {
        # the day count of the sidereal-time chain (C04, C11): month table, leap-year rule, the loop over the months
        "file": "physics/time/conversions.py",
        "mode": "exact",
        "fns": [
            ("dayOfYear", "dayOfYear", {"year": "I", "month": "I", "day": "I", "hour": "I", "minute": "I", "second": "F"}, 12),
            ("seconds2hms", "seconds2hms", {"total_seconds": "F"}, 0),
            # `getJulianDate` as `utc2TerrestrialTime` calls it: hour and minute are the floats `seconds2hms` returns
            ("JulianDate.getJulianDate", "getJulianDateF",
             {"year": "I", "month": "I", "day": "I", "hour": "F", "minute": "F", "second": "F"}, 0, {"file": "physics/time/stardate.py"}),
            ("utc2TerrestrialTime", "utc2TerrestrialTime",
             {"year": "I", "month": "I", "day": "I", "hour": "I", "minute": "I", "second": "F", "delta_atomic_time": "F"}, 0),
        ],
    },
    "Prep": {
        # the body of the loop in which `Celestial._prepEvents` re-arms the burns already under way (C15): one pass, as a function of
        # the thrust slot, the burn's `active` flag and the start of the call
        "file": "dynamics/celestial.py",
        "mode": "exact",
        "imports": ["RV.Generated.Maths", "RV.Generated.Thrust"],
        "fns": [
            ("Celestial._prepEvents", "prepOne", {"finite_thrust": "OE", "ev_active": "B", "event": "E", "initial_time": "F"}, 0,
             {"keep_isinstance": True, "loop_body": "(finite_thrust, ev_active)",
              "known": {"getStateChangeCallback": ("RV.Generated.Thrust.getStateChangeCallback", ["F", "F", "B"], ("B", "B"))},
              "object_state": ({"self.finite_thrust": "finite_thrust", "event.active": "ev_active"}, set(), {})}),
        ],
    },
    "MathsF64": {
        # the same source in binary64 semantics: where the rounding of `angle += TWOPI` matters (the open known finding of C12)
        "file": "physics/maths.py",
        "mode": "f64",
        "fns": [
            ("wrapAngle2Pi", "wrapAngle2Pi", {"angle": "F"}, 0),
        ],
    },
    "Maths": {
        "file": "physics/maths.py",
        "mode": "exact",
        "fns": [
            ("wrapAngleNegPiPi", "wrapAngleNegPiPi", {"angle": "F"}, 0),
            ("wrapAngle2Pi", "wrapAngle2Pi", {"angle": "F"}, 0),
            ("fpe_equals", "fpe_equals", {"value": "F", "expected": "F"}, 0),
            ("residual", "residual", {"val1": "F", "val2": "F", "angular": "B"}, 0),
            # the vectorised helpers act element by element: translated at one element
            ("vecWrapAngleNeg", "vecWrapAngleNeg", {"angles": "F"}, 0),
            ("vecWrapAngle2Pi", "vecWrapAngle2Pi", {"angles": "F"}, 0),
            ("vecResiduals", "vecResiduals", {"vec1": "F", "vec2": "F", "angular": "B"}, 0),
        ],
    },
}


class _Isinstance(ast.NodeTransformer):
    """`isinstance(x, T)` guards of the float subclasses: the translated functions are typed, the guard is a type test
    that is false on every typed input; it is replaced by `False` (recorded in DESIGN.md as modelled)."""

    def visit_Call(self, node):
        self.generic_visit(node)
        if isinstance(node.func, ast.Name) and node.func.id == "isinstance":
            return ast.Constant(value=False)
        return node


class _ObjectState(ast.NodeTransformer):
    """A method that reads and writes attributes of its object and returns a handle: the attributes named in `attrs`
    become local variables (initial values enter as parameters), expression statements calling one of `drop` (logging,
    the event stack) are removed, and each `return X` whose text is a key of `returns` returns the tuple given there -
    the new attribute values together with what the caller can tell about the handle. Recorded in DESIGN.md as modelled."""

    def __init__(self, attrs, drop, returns):
        self.attrs, self.drop, self.returns = attrs, drop, returns

    def visit_Attribute(self, node):
        self.generic_visit(node)
        key = ast.unparse(node)
        if key in self.attrs:
            return ast.Name(id=self.attrs[key], ctx=node.ctx)
        return node

    def visit_Expr(self, node):
        if isinstance(node.value, ast.Call) and ast.unparse(node.value.func) in self.drop:
            return ast.Pass()
        self.generic_visit(node)
        return node

    def visit_If(self, node):
        self.generic_visit(node)
        if not node.orelse and all(isinstance(x, ast.Pass) for x in node.body):
            return ast.Pass()  # a branch that only logged
        return node

    def visit_Return(self, node):
        key = ast.unparse(node.value) if node.value is not None else "None"
        if key in self.returns:
            return ast.Return(value=ast.parse(self.returns[key], mode="eval").body)
        self.generic_visit(node)
        return node


class _MethodOps(ast.NodeTransformer):
    """inside the float subclasses `self - x`, `self * x`, `x + float(...)` dispatch to the dunder methods translated
    above; they are rewritten into explicit calls so that an edit of a dunder method reaches its users."""

    def __init__(self, table):
        self.table = table

    def visit_BinOp(self, node):
        self.generic_visit(node)
        key = None
        if isinstance(node.left, ast.Name):
            key = (node.left.id, type(node.op))
        if key in self.table:
            return ast.Call(func=ast.Name(id=self.table[key], ctx=ast.Load()), args=[node.left, node.right], keywords=[])
        return node


def gen_sql_filter(lean_name, fdef, cols, params):
    """`getRelevantEvents`: the function builds one SQLAlchemy query; what it selects is the conjunction of the comparisons handed to
    `.filter(...)` - those of a `filter` whose result is thrown away select nothing, which is how a forgotten `query = ` shows. The row's
    columns (`cols`) and the function's parameters (`params`) become the arguments of a predicate on one row."""
    alias, qvar, conj = None, None, []

    def side(n):
        if isinstance(n, ast.Attribute) and isinstance(n.value, ast.Name) and n.value.id == alias and n.attr in cols:
            return f"e_{n.attr}", cols[n.attr]
        if isinstance(n, ast.Attribute) and n.attr == "value" and isinstance(n.value, ast.Name) and n.value.id in params:
            return n.value.id, params[n.value.id]
        if isinstance(n, ast.Name) and n.id in params:
            return n.id, params[n.id]
        raise Unsupported(f"{lean_name}: filter operand {ast.unparse(n)}")

    def comparison(c, unwrap=None):
        if not (isinstance(c, ast.Compare) and len(c.ops) == 1):
            raise Unsupported(f"{lean_name}: filter argument {ast.unparse(c)}")
        (a, ta), (b, tb) = side(c.left), side(c.comparators[0])
        if unwrap and b == unwrap:
            b, tb = "v", tb[1:]
        if ta != tb:
            raise Unsupported(f"{lean_name}: comparison of {ta} with {tb}")
        sym = {ast.Lt: "<", ast.LtE: "≤", ast.Gt: ">", ast.GtE: "≥", ast.Eq: "="}.get(type(c.ops[0]))
        if sym is None:
            raise Unsupported(f"{lean_name}: comparison {type(c.ops[0]).__name__}")
        return f"decide ({a} {sym} {b})"

    def filter_call(v):
        return isinstance(v, ast.Call) and isinstance(v.func, ast.Attribute) and v.func.attr == "filter" and not v.keywords

    for st in fdef.body:
        if isinstance(st, ast.Expr) and isinstance(st.value, ast.Constant):
            continue
        if isinstance(st, ast.Assign) and isinstance(st.value, ast.Call) and ast.unparse(st.value.func) == "with_polymorphic":
            alias = st.targets[0].id
        elif isinstance(st, ast.Assign) and filter_call(st.value) and isinstance(st.value.func.value, ast.Call) \
                and ast.unparse(st.value.func.value) == f"Query({alias})" and qvar is None:
            qvar = st.targets[0].id
            conj += [comparison(c) for c in st.value.args]
        elif isinstance(st, ast.If) and not st.orelse and len(st.body) == 1 and isinstance(st.test, ast.Compare) \
                and isinstance(st.test.ops[0], ast.IsNot) and isinstance(st.test.left, ast.Name) and params.get(st.test.left.id, "").startswith("O"):
            opt, b = st.test.left.id, st.body[0]
            if isinstance(b, ast.Assign) and isinstance(b.targets[0], ast.Name) and b.targets[0].id == qvar and filter_call(b.value) \
                    and isinstance(b.value.func.value, ast.Name) and b.value.func.value.id == qvar:
                inner = " && ".join(comparison(c, unwrap=opt) for c in b.value.args)
                conj.append(f"(match {opt} with | none => true | some v => {inner})")
            elif isinstance(b, ast.Expr) and filter_call(b.value):
                pass  # the filtered query is thrown away: nothing is selected by it
            else:
                raise Unsupported(f"{lean_name}: statement {ast.unparse(b)}")
        elif isinstance(st, ast.Return) and ast.unparse(st.value) == f"database.getData({qvar})":
            break
        else:
            raise Unsupported(f"{lean_name}: statement {ast.unparse(st)[:60]}")
    else:
        raise Unsupported(f"{lean_name}: no return of the query's rows")
    ps = " ".join(f"(e_{c} : {LEAN_T[t]})" for c, t in cols.items()) + " " + " ".join(
        f"({p} : {'Option ' + LEAN_T[t[1:]] if t.startswith('O') and t not in LEAN_T else LEAN_T[t]})" for p, t in params.items())
    return (f"/-- `{fdef.name}`: the row predicate of the query it builds (one row `e_*` of the events table) -/\n"
            f"def {lean_name} {ps} : Bool :=\n  " + " &&\n  ".join(conj) + "\n")


def generate(module):
    spec = TARGETS[module]
    known = {}
    chunks = []
    for ent in spec["fns"]:
        qual, lean_name, ptypes, fuel = ent[:4]
        extra = ent[4] if len(ent) > 4 else {}
        tree = ast.parse((SRC / extra.get("file", spec["file"])).read_text())
        fdef = find_def(tree, qual)
        if "sql_filter" in extra:
            chunks.append(gen_sql_filter(lean_name, fdef, *extra["sql_filter"]))
            continue
        fdef = ast.parse(ast.unparse(fdef)).body[0] if extra.get("keep_isinstance") else _Isinstance().visit(ast.parse(ast.unparse(fdef)).body[0])
        table = {}
        if qual == "JulianDate.convertToScenarioTime":
            table = {("self", ast.Sub): "JulianDate.__sub__"}
        if qual == "ScenarioTime.convertToJulianDate":
            table = {("self", ast.Mult): "ScenarioTime.__mul__", ("julian_date_start", ast.Add): "JulianDate.__add__"}
        if table:
            fdef = _MethodOps(table).visit(fdef)
            ast.fix_missing_locations(fdef)
        if extra.get("drop_varargs"):
            # `*args, test=oneSidedChiSquareTest, **kwargs`: the detectors are called positionally with the default test
            if [a.arg for a in fdef.args.kwonlyargs] != extra["drop_varargs"]:
                raise Unsupported(f"{qual}: keyword-only parameters {[a.arg for a in fdef.args.kwonlyargs]}")
            if [ast.unparse(d) for d in fdef.args.kw_defaults] != extra.get("kw_defaults", []):
                raise Unsupported(f"{qual}: keyword defaults {[ast.unparse(d) for d in fdef.args.kw_defaults]}")
            fdef._drop_varargs = True
        if "loop_body" in extra:
            # the body of the function's `for` loop as a function of the loop variable and the state it updates:
            # `continue` and the end of the body return that state
            loop = next(x for x in ast.walk(fdef) if isinstance(x, ast.For))
            ret = extra["loop_body"]

            class _C(ast.NodeTransformer):
                def visit_Continue(self, node):
                    return ast.parse("return " + ret).body[0]

                def visit_Assign(self, node):
                    # `x = event.getStateChangeCallback(t)`: the callee (translated above) also sets event.active
                    v = node.value
                    if isinstance(v, ast.Call) and isinstance(v.func, ast.Attribute) and v.func.attr == "getStateChangeCallback" \
                            and isinstance(v.func.value, ast.Name):
                        ev, tgt, arg = v.func.value.id, ast.unparse(node.targets[0]), ast.unparse(v.args[0])
                        return ast.parse(f"{ev}.active, _cb = getStateChangeCallback({arg}, {ev}.end_time, {ev}.active)\n"
                                         f"{tgt} = {ev} if _cb else None").body
                    return node
            body = [_C().visit(x) for x in loop.body]
            flat = []
            for x in body:
                flat.extend(x if isinstance(x, list) else [x])
            fdef = ast.FunctionDef(name=fdef.name, args=ast.arguments(posonlyargs=[], args=[ast.arg(arg=a) for a in ptypes], kwonlyargs=[],
                                   kw_defaults=[], defaults=[]), body=flat + [ast.parse("return " + ret).body[0]], decorator_list=[], lineno=loop.lineno)
            ast.fix_missing_locations(fdef)
            fdef = ast.parse(ast.unparse(fdef)).body[0]
            if not extra.get("keep_isinstance"):
                pass
        if extra.get("count_loop"):
            # `if c: ...; for _ in range(n): <steps> else: raise` - the function's result is how many times the loop body runs: the loop
            # becomes `return n`, and the refusing `else` branch becomes a guard in front (`if not c: raise`)
            class _L(ast.NodeTransformer):
                def visit_For(self, node):
                    if isinstance(node.iter, ast.Call) and ast.unparse(node.iter.func) == "range" and len(node.iter.args) == 1:
                        return ast.Return(value=node.iter.args[0])
                    return node

                def visit_If(self, node):
                    self.generic_visit(node)
                    if node.orelse and any(isinstance(x, ast.Raise) for x in node.orelse):
                        return [ast.If(test=ast.UnaryOp(op=ast.Not(), operand=node.test), body=node.orelse, orelse=[]), *node.body]
                    return node
            fdef = _L().visit(fdef)
            ast.fix_missing_locations(fdef)
        if "object_state" in extra:
            fdef = _ObjectState(*extra["object_state"]).visit(fdef)
            ast.fix_missing_locations(fdef)
        known.update(extra.get("known", {}))
        tr = FnTr(lean_name, fdef, spec["mode"], ptypes, dict(CONSTS, **extra.get("consts", {})), known, fuel)
        tr.extra_params = list(extra.get("params", []))
        tr.local_types = dict(extra.get("locals", {}))
        tr.skip_locals = set(extra.get("skip", []))
        tr.dq_maxlen = extra.get("dq_maxlen")
        tr.raises_none = bool(extra.get("raises_none"))
        # a guard `if False: raise` left by the isinstance rewrite is dropped
        fdef.body = [s for s in fdef.body if not (isinstance(s, ast.If) and isinstance(s.test, ast.Constant) and s.test.value is False)]
        chunks.append(tr.translate())
        ptys = [t for _, t in tr.params + tr.extra_params]
        known[qual.split(".")[-1] if "__" not in qual and "convert" not in qual else qual] = (lean_name, ptys, tr.ret_type)
        known[qual] = (lean_name, ptys, tr.ret_type)
    head = [
        f"/- GENERATED by harness/py2lean.py from /repo/src/resonaate/{spec['file']} on every run. Do not edit. -/",
        "import RV.Num.Py",
        "import RV.Generated.Constants",
        *[f"import {m}" for m in spec.get("imports", [])],
        f"namespace RV.Generated.{module}",
        "open RV.F64 RV.Py",
        "set_option linter.unusedVariables false",
        "",
    ]
    return "\n".join(head) + "\n".join(chunks) + f"\nend RV.Generated.{module}\n"


if __name__ == "__main__":
    import sys

    for m in sys.argv[1:] or TARGETS:
        print(generate(m))
