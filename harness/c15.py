"""C15 - finite burns thrust for exactly their configured interval."""
from __future__ import annotations

import json
import re
import sys
from datetime import datetime, timedelta
from fractions import Fraction
from functools import partial
from pathlib import Path
from types import SimpleNamespace

sys.path.insert(0, str(Path(__file__).resolve().parent))
import numpy as np
from common import Run, Toks, corpus, fmt, guarded, main_guard

PID = "C15"
START = datetime(2021, 3, 30, 16, 0, 0)


def cases(run: Run):
    rng = run.rng
    out = list(corpus(PID))
    for _ in range(run.n(36, 400)):
        dt = rng.choice([60, 60, 30, 300, 37.5, 7.5, 120])
        N = rng.randint(4, 9)
        span = dt * N
        kind = rng.choice(["inside", "span", "start-aligned", "end-aligned", "both-aligned", "short", "generic", "pre-epoch"])
        if kind == "inside":
            k = rng.randint(1, N - 1)
            s = k * dt + rng.uniform(0.1, 0.4) * dt
            e = k * dt + rng.uniform(0.5, 0.9) * dt
        elif kind == "span":
            s = rng.randint(1, N - 3) * dt + rng.uniform(0.1, 0.9) * dt
            e = s + rng.uniform(1.2, 2.5) * dt
        elif kind == "start-aligned":
            s = rng.randint(1, N - 2) * dt
            e = s + rng.uniform(0.3, 1.7) * dt
        elif kind == "end-aligned":
            e = rng.randint(2, N - 1) * dt
            s = e - rng.uniform(0.3, 1.7) * dt
        elif kind == "both-aligned":
            s = rng.randint(1, N - 2) * dt
            e = s + rng.randint(1, 2) * dt
        elif kind == "pre-epoch":
            # the thrust is already under way when the scenario starts
            s = -rng.uniform(1.0, 3 * dt)
            e = rng.uniform(0.3, 2.5) * dt
        elif kind == "short":
            s = rng.randint(1, N - 1) * dt + rng.uniform(0.05, 0.9) * dt
            e = s + rng.choice([0.5, 1.5, 3.0])
        else:
            s = rng.uniform(dt * 0.5, span * 0.6)
            e = s + rng.uniform(5.0, span * 0.35)
        s, e = round((s if kind == "pre-epoch" else max(s, 1.0)) * 64) / 64, round(min(e, span - 1.0) * 64) / 64
        if e - s < 0.25:
            e = s + 0.5
        thrust = rng.choice(["eci", "ntw", "spiral", "plane"])
        c = {"mag": rng.choice([2e-5, 1e-5, 3e-5, 2.5e-5]), "mag2": rng.choice([2e-5, 1.5e-5, 4e-5]), "dt": dt, "N": N, "s": s, "e": e, "kind": kind, "thrust": thrust, "model": rng.choice(["sp", "sp", "two_body"]),
             "orbit": rng.choice(["leo", "geo"]), "late": rng.choice([0, 0, 0, 432000, 1728000])}
        # a second burn of the same agent, starting in the step in which the first one ends (so both are queued for that step) or later
        if rng.random() < 0.35 and e + 2.0 < span - 2.0:
            k_end = int(e // dt)  # the step [k_end*dt, (k_end+1)*dt] contains the end of the first burn
            hi = min(span - 1.5, (k_end + 1) * dt - 0.5) if rng.random() < 0.7 else span - 1.5
            if rng.random() < 0.35:
                # the second burn begins at the very instant the first one ends (a piecewise thrust profile), queued before or after it
                e2 = round(min(span - 1.0, e + rng.uniform(0.5, 1.5 * dt)) * 64) / 64
                if e2 - e >= 0.25:
                    c.update(s2=e, e2=e2, thrust2=rng.choice(["eci", "ntw", "spiral", "plane"]), queue=rng.choice(["fwd", "rev"]))
            elif hi > e + 1.0:
                s2 = round(rng.uniform(e + 0.5, hi) * 64) / 64
                e2 = round(min(span - 1.0, s2 + rng.uniform(0.5, 1.5 * dt)) * 64) / 64
                if e2 - s2 >= 0.25:
                    c.update(s2=s2, e2=e2, thrust2=rng.choice(["eci", "ntw", "spiral", "plane"]))
        out.append(c)
    return out


# ----------------------------------------------------------------------------- real code
def make_dynamics(model):
    from resonaate.physics.time.stardate import datetimeToJulianDate

    if model == "two_body":
        from resonaate.dynamics.two_body import TwoBody

        return TwoBody()
    from resonaate.dynamics.special_perturbations import SpecialPerturbations
    from resonaate.scenario.config.geopotential_config import GeopotentialConfig
    from resonaate.scenario.config.perturbations_config import PerturbationsConfig

    return SpecialPerturbations(datetimeToJulianDate(START), GeopotentialConfig(model="egm96.txt", degree=2, order=0),
                                PerturbationsConfig(third_bodies=[], solar_radiation_pressure=False, general_relativity=False), 0.02)


def thrust_spec(c, which):
    """the thrust as configured: kind, and the vector / magnitude handed to the data event (they vary from case to case)"""
    kind = c["thrust"] if which == 0 else c["thrust2"]
    mag = float(c.get("mag" if which == 0 else "mag2", 2e-5))
    if kind == "eci":
        return kind, [0.0, mag, 0.5 * mag]
    if kind == "ntw":
        return kind, [0.25 * mag, mag, 0.5 * mag] if c.get("ntw_full", True) else [0.0, mag, 0.0]
    return kind, mag


def own_thrust(kind, val):
    """the acceleration of the configured thrust at a state, from its documented definition (nothing of the code under test):
    NTW axes: T along the velocity, W along the angular momentum, N = T x W; a spiral thrust is along T, a plane-change thrust along +-W
    (the sign of the z coordinate)"""
    def acc(y):
        r, v = np.asarray(y[:3], float), np.asarray(y[3:6], float)
        t_hat = v / np.linalg.norm(v)
        w_hat = np.cross(r, v) / np.linalg.norm(np.cross(r, v))
        n_hat = np.cross(t_hat, w_hat)
        if kind == "eci":
            return np.array(val, float)
        if kind == "ntw":
            return val[0] * n_hat + val[1] * t_hat + val[2] * w_hat
        if kind == "spiral":
            return val * t_hat
        return (val if r[2] >= 0 else -val) * w_hat

    return acc


def thrust_func(kind):
    from resonaate.dynamics.integration_events.finite_thrust import eciBurn, ntwBurn, planeChangeThrust, spiralThrust

    if kind == "eci":
        return partial(eciBurn, acc_vector=np.array([0.0, 2e-5, 1e-5])), "burn"
    if kind == "ntw":
        return partial(ntwBurn, acc_vector=np.array([0.0, 2e-5, 0.0])), "burn"
    if kind == "spiral":
        return partial(spiralThrust, magnitude=2e-5), "maneuver"
    return partial(planeChangeThrust, magnitude=2e-5), "maneuver"


def x0_of(orbit):
    if orbit == "leo":
        return np.array([7000.0, 0.0, 0.0, 0.0, 7.0, 2.8])
    return np.array([42164.0, 0.0, 0.0, 0.0, 3.0746, 0.0])


def impl_run(c):
    import resonaate.dynamics.integration_events.finite_thrust as ft
    from resonaate.agents.agent_base import Agent
    from resonaate.dynamics.integration_events.finite_thrust import ScheduledFiniteBurn, ScheduledFiniteManeuver
    from resonaate.physics.time.stardate import ScenarioTime
    from scipy.integrate import solve_ivp

    dt, N, s, e = c["dt"], c["N"], c["s"] + c["late"], c["e"] + c["late"]
    burns = [(s, e, own_thrust(*thrust_spec(c, 0)), thrust_spec(c, 0))]
    if "s2" in c:
        burns.append((c["s2"] + c["late"], c["e2"] + c["late"], own_thrust(*thrust_spec(c, 1)), thrust_spec(c, 1)))
    if c.get("queue") == "rev":
        burns.reverse()  # the later burn is queued first
    dyn = make_dynamics(c["model"])
    pushed = []
    old = ft.EventStack.pushEvent
    ft.EventStack.pushEvent = classmethod(lambda cls_, rec: pushed.append(rec))
    from resonaate.data.events import ScheduledFiniteBurnEvent, ScheduledFiniteManeuverEvent
    from resonaate.physics.time.stardate import datetimeToJulianDate

    agent = SimpleNamespace(propagate_event_queue=[], _time=ScenarioTime(float(c["late"])), time=ScenarioTime(float(c["late"])), simulation_id=10001,
                            julian_date_start=datetimeToJulianDate(START))
    agent.appendPropagateEvent = lambda ev: Agent.appendPropagateEvent(agent, ev)
    def data_event(bs, be, spec):
        kind, val = spec
        """the database row of the burn, as the scenario configuration creates it; the real handleEvent turns it into the propagator's event"""
        a, b = datetimeToJulianDate(START + timedelta(seconds=bs)), datetimeToJulianDate(START + timedelta(seconds=be))
        base = dict(scope="agent_propagation", scope_instance_id=10001, start_time_jd=float(a), end_time_jd=float(b), planned=False)
        if kind in ("eci", "ntw"):
            return ScheduledFiniteBurnEvent(event_type="finite_burn", acc_vec_0=val[0], acc_vec_1=val[1], acc_vec_2=val[2], thrust_frame=kind, **base)
        return ScheduledFiniteManeuverEvent(event_type="finite_maneuver", maneuver_mag=val, maneuver_type="spiral" if kind == "spiral" else "plane_change", **base)

    rows = [data_event(b[0], b[1], b[3]) for b in burns]
    seen_times = {}
    x = x0_of(c["orbit"]).copy()
    xb0 = x0_of(c["orbit"]).copy() * np.array([1.0, 1.0, 1.0, 1.0, 1.0, -1.0])
    xb = xb0.copy()
    switches = []
    # every callback of every burn, in the order in which the propagator makes them: (call, burn index, time, thrust installed?)
    callbacks = []
    ends = []
    queues = []
    orig_cb = ft.ScheduledFiniteThrust.getStateChangeCallback
    step_now = [0]

    def spy_cb(self, time):
        r = orig_cb(self, time)
        idx = min(range(len(burns)), key=lambda j: abs(float(self.start_time) - burns[j][0]))
        callbacks.append((step_now[0], idx, float(time), r is not None))
        return r

    ft.ScheduledFiniteThrust.getStateChangeCallback = spy_cb
    step_events, rerun, rerun_whole = [], None, None
    try:
        for k in range(1, N + 1):
            t0, t1 = c["late"] + (k - 1) * dt, c["late"] + k * dt
            # the data event is relevant in every step its interval overlaps (C01): each such step appends an equal event object
            agent._time = agent.time = ScenarioTime(t0)
            for j, (bs, be, bf, bEv) in enumerate(burns):
                if bs <= t1 and t0 < be:
                    rows[j].handleEvent(agent)
            for ev in agent.propagate_event_queue:
                j = min(range(len(burns)), key=lambda q: abs(float(ev.start_time) - burns[q][0]))
                seen_times.setdefault(j, (float(ev.start_time), float(ev.end_time)))
            Agent.prunePropagateEvents(agent)
            n0 = len(pushed)
            step_now[0] = k
            # the burns as they stand in the queue handed to the propagator in this call (an equal event may stand there more than once)
            queues.append([min(range(len(burns)), key=lambda j: abs(float(ev.start_time) - burns[j][0])) for ev in agent.propagate_event_queue])
            step_events.append(list(agent.propagate_event_queue))
            x = dyn.propagate(ScenarioTime(t0), ScenarioTime(t1), x, scheduled_events=agent.propagate_event_queue)
            for rec in pushed[n0:]:
                msg = str(getattr(rec, "description", getattr(rec, "event", rec)))
                m = re.search(r"Finite thrust (ended )?at (?:ScenarioTime\()?([-+0-9.eE]+)", msg if "Finite" in msg else str(rec.__dict__))
                if m:
                    switches.append((k, "off" if m.group(1) else "on", float(m.group(2))))
            on_end = bool(dyn.finite_thrust)
            owner = next((ev for ev in agent.propagate_event_queue if ev.thrust_func is dyn.finite_thrust), None)
            ends.append(("?" if owner is None else min(range(len(burns)), key=lambda q: abs(float(owner.start_time) - burns[q][0]))) if on_end else "off")
            switches.append((k, "call-end-on" if on_end else "call-end-off", float(t1)))
            # a second satellite that never burns, propagated by the same dynamics object right after the first (nothing queued): it coasts
            n1 = len(pushed)
            xb = dyn.propagate(ScenarioTime(t0), ScenarioTime(t1), xb, scheduled_events=[])
            del pushed[n1:]
        # the same arc once more, with the very same event objects (a what-if comparison, a filter predicting a step again): a burn thrusts over its
        # configured interval in every propagation it is handed to, not only the first
        n_cb, n_p = len(callbacks), len(pushed)
        dyn2, xr = make_dynamics(c["model"]), x0_of(c["orbit"]).copy()
        for k in range(1, N + 1):
            xr = dyn2.propagate(ScenarioTime(c["late"] + (k - 1) * dt), ScenarioTime(c["late"] + k * dt), xr, scheduled_events=step_events[k - 1])
        rerun = [float(v) for v in xr]
        # and once as a what-if study does it: a pass that STOPS inside a burn (its end falls between the burn's start and end), then the whole
        # arc from the beginning in one call - all with the very same event objects. What a pass left on them must not leak into the next one
        allev = []
        for lst in step_events:
            for ev in lst:
                if not any(ev is e for e in allev):
                    allev.append(ev)
        kmid = next((k for k in range(1, N) if any(bs < c["late"] + k * dt < be for bs, be, _bf, _bEv in burns)), None)
        if kmid is not None and allev:
            dyn3 = make_dynamics(c["model"])
            dyn3.propagate(ScenarioTime(c["late"]), ScenarioTime(c["late"] + kmid * dt), x0_of(c["orbit"]).copy(), scheduled_events=allev)
            xw = dyn3.propagate(ScenarioTime(c["late"]), ScenarioTime(c["late"] + N * dt), x0_of(c["orbit"]).copy(), scheduled_events=allev)
            rerun_whole = [float(v) for v in xw]
        del callbacks[n_cb:]
        del pushed[n_p:]
    finally:
        ft.EventStack.pushEvent = old
        ft.ScheduledFiniteThrust.getStateChangeCallback = orig_cb
    # independent reference: coast, thrust switched on exactly on [s, e], coast
    ref = make_dynamics(c["model"])
    T0, T1 = float(c["late"]), float(c["late"] + N * dt)
    y = x0_of(c["orbit"]).copy()
    t_now = T0
    for bs, be, bf, _ in sorted(burns, key=lambda b: b[0]):
        if bs > t_now:
            y = ref.propagate(ScenarioTime(t_now), ScenarioTime(bs), y)
        bs = max(bs, t_now)  # a burn under way at the start of the run thrusts from the start
        ref.finite_thrust = None

        def rhs(t, yy, bf=bf):
            d = np.array(ref._differentialEquation(t, yy, check_collision=False), dtype=float)
            d[3:6] += bf(yy)  # the natural forces of the model plus the configured thrust, evaluated here
            return d

        sol = solve_ivp(rhs, (bs, be), y, method="RK45", rtol=ref.RELATIVE_TOL, atol=ref.ABSOLUTE_TOL)
        y = sol.y[:, -1]
        ref.finite_thrust = None
        t_now = be
    y = ref.propagate(ScenarioTime(t_now), ScenarioTime(T1), y) if t_now < T1 else y
    coast = make_dynamics(c["model"]).propagate(ScenarioTime(T0), ScenarioTime(T1), x0_of(c["orbit"]).copy())
    fresh = make_dynamics(c["model"])
    yb = xb0.copy()
    for k in range(1, N + 1):
        yb = fresh.propagate(ScenarioTime(c["late"] + (k - 1) * dt), ScenarioTime(c["late"] + k * dt), yb)
    return {"rerun_whole": rerun_whole, "rerun": rerun, "final": [float(v) for v in x], "ref": [float(v) for v in y], "coast": [float(v) for v in coast], "switches": switches,
            "companion": [float(v) for v in xb], "companion_ref": [float(v) for v in yb],
            "callbacks": callbacks, "ends": ends, "queues": queues,
            # the interval as the propagator was given it (the configured instants after their passage through Julian dates: +-25 microseconds)
            "burn_times": [seen_times.get(j, (float(b[0]), float(b[1]))) for j, b in enumerate(burns)]}


def intervals_from_switches(c, sw):
    """per call: the interval with thrust on, from the callback records"""
    dt, N = c["dt"], c["N"]
    out = []
    for k in range(1, N + 1):
        t0, t1 = c["late"] + (k - 1) * dt, c["late"] + k * dt
        evs = [(kind, t) for (kk, kind, t) in sw if kk == k]
        on_at = None
        iv = None
        for kind, t in evs:
            if kind == "on" and on_at is None:
                on_at = t
            elif kind == "off" and on_at is not None:
                iv = (on_at, t)
                on_at = None
            elif kind == "call-end-on" and on_at is not None:
                iv = (on_at, t1)
                on_at = None
        out.append(iv)
    return out


def timeline_lines(c, impl):
    """one model line per propagation call: the burns in the order of the queue the real propagator was given in that call"""
    lines = []
    for k, q in enumerate(impl["queues"], start=1):
        t0, t1 = Fraction(c["late"]) + Fraction(c["dt"]) * (k - 1), Fraction(c["late"]) + Fraction(c["dt"]) * k
        bs = [impl["burn_times"][j] for j in q]
        lines.append(f"burn.timeline {len(bs)} " + " ".join(f"{fmt(Fraction(a))} {fmt(Fraction(b))}" for a, b in bs) + f" 2 {fmt(t0)} {fmt(t1)}")
    return lines


def compare_timeline(c, outs, impl):
    """the callbacks the real propagator made in each call against the model's timeline; None when they agree"""
    for k, (tok, q) in enumerate(zip(outs, impl["queues"]), start=1):
        if tok.startswith("bad-op"):
            return ("ok", tok)
        items, end = tok.split(";end=")
        # the model names a burn by its first position in the queue of this call
        name = lambda pos: str(q[int(pos)]) if pos not in ("off", "?") else pos
        want = [] if items == "-" else [(float(Fraction(it.split("=")[0])), it.split("=")[1][0] + name(it.split("=")[1][1:])) for it in items.split(",")]
        got = [(t, ("+" if on else "-") + str(j)) for (kk, j, t, on) in impl["callbacks"] if kk == k]
        if len(want) != len(got) or any(abs(w[0] - g[0]) > 1e-6 or w[1] != g[1] for w, g in zip(want, got)):
            return (f"call {k} (queue {q}): callbacks {got}", f"model {want}")
        if str(impl["ends"][k - 1]) != name(end):
            return (f"call {k}: slot at the end of the call {impl['ends'][k - 1]}", f"model {name(end)}")
    return None


def oracle(run: Run, c, impl):
    if impl[0] != "ok":
        return [("raises", f"{impl[1]}")]
    i = impl[1]
    fails = []
    final, ref, coast = np.array(i["final"]), np.array(i["ref"]), np.array(i["coast"])
    if i.get("rerun") is not None:
        rr = np.array(i["rerun"])
        if float(np.linalg.norm(rr[:3] - final[:3])) > 1e-6 or float(np.linalg.norm(rr[3:] - final[3:])) > 1e-9:
            fails.append(("trajectory:rerun", f"the same arc propagated a second time with the same scheduled-event objects ends {np.linalg.norm(rr[:3] - final[:3]):.3g} km / "
                                              f"{np.linalg.norm(rr[3:] - final[3:]):.3g} km/s from the first pass"))
    dpos, dvel = float(np.linalg.norm(final[:3] - ref[:3])), float(np.linalg.norm(final[3:] - ref[3:]))
    effect = float(np.linalg.norm(ref[3:] - coast[3:]))
    if i.get("rerun_whole") is not None:
        rw = np.array(i["rerun_whole"])
        ew = float(np.linalg.norm(rw[3:] - final[3:]))
        run.worse("whole-arc-after-partial-pass-km/s", ew)
        run.count("partial-pass-then-whole-arc")
        # one call over the whole arc against the step-by-step run: the integrator's own difference, far below a misplaced thrust
        if ew > max(2e-9, 1e-4 * effect) + 1e-8 or float(np.linalg.norm(rw[:3] - final[:3])) > 2e-3:
            fails.append(("trajectory:after-partial-pass", f"after a pass that stopped inside a burn, the whole arc propagated with the same scheduled-event objects ends "
                                                           f"{np.linalg.norm(rw[:3] - final[:3]):.3g} km / {ew:.3g} km/s from the step-by-step run (thrust effect {effect:.3g} km/s)"))
    run.worse("velocity-vs-reference-km/s", dvel)
    run.worse("position-vs-reference-km", dpos)
    tol_v = max(2e-9, 1e-4 * effect)
    if dvel > tol_v or dpos > max(2e-6, 1e-4 * float(np.linalg.norm(ref[:3] - coast[:3]))):
        ivs = intervals_from_switches(c, i["switches"])
        on = sum((b - a) for iv in ivs if iv for a, b in [iv])
        second = f" followed by {c['thrust2']} thrust [{c['s2']},{c['e2']}] s" if "s2" in c else ""
        fails.append(("trajectory", f"{c['model']} {c['thrust']} thrust [{c['s']},{c['e']}] s{second} (+{c['late']}) with {c['dt']} s steps: final state differs from the reference "
                                    f"integration by {dvel:.3g} km/s / {dpos:.3g} km (thrust effect {effect:.3g} km/s); thrust was on for {on:.4f} s, configured {c['e'] - c['s']:.4f} s"))
    if i["companion"] != i["companion_ref"]:
        d = float(np.linalg.norm(np.array(i["companion"]) - np.array(i["companion_ref"])))
        fails.append(("trajectory:companion", f"a satellite with nothing scheduled, propagated by the same dynamics object as the burning one, does not coast: its final state differs by {d:.3g} "
                                              f"from the same propagation on an object that never saw a burn ({c['model']} {c['thrust']} thrust [{c['s']},{c['e']}] s, {c['dt']} s steps)"))
    return fails


def run_cases(run: Run, cs):
    impls = [guarded(impl_run, c) for c in cs]
    lines = []
    for c, i in zip(cs, impls):
        ts = [Fraction(c["late"]) + Fraction(c["dt"]) * k for k in range(c["N"] + 1)]
        # the interval as the propagator received it from the real handleEvent (the configured instants pass through Julian dates: +-25 microseconds)
        bs, be = (Fraction(i[1]["burn_times"][0][0]), Fraction(i[1]["burn_times"][0][1])) if (i[0] == "ok" and "s2" not in c) else (Fraction(c["s"]) + c["late"], Fraction(c["e"]) + c["late"])
        lines.append(f"burn.calls phaseSwitch {fmt(bs)} {fmt(be)} {len(ts)} " + " ".join(fmt(t) for t in ts))
    # the one-slot model of all the agent's burns: the callbacks of every call, in order, and the slot at the end of the call
    spans = []
    for c, i in zip(cs, impls):
        ls = timeline_lines(c, i[1]) if i[0] == "ok" else []
        spans.append((len(lines), len(ls)))
        lines.extend(ls)
    outs_all = run.model(lines)
    outs = outs_all[:len(cs)] if outs_all is not None else None
    for idx, (c, i) in enumerate(zip(cs, impls)):
        if outs_all is not None and i[0] == "ok":
            run.model_compared += 1
            d = compare_timeline(c, outs_all[spans[idx][0]:spans[idx][0] + spans[idx][1]], i[1])
            if d:
                run.disagree("burn.timeline", c, d[0], d[1])
        run.case("burn", c, nontrivial=True, branch=f"{c['kind']}:{c['model']}" + (":two-burns" if "s2" in c else "") + (":back-to-back-" + c["queue"] if "queue" in c else ""))
        if outs is not None and i[0] == "ok" and "s2" not in c:  # the per-call interval model is for one burn; two-burn cases are judged on the trajectory
            run.model_compared += 1
            mo = outs[idx].split()
            if mo[0] == "bad-op":
                run.disagree("burn", c, "ok", outs[idx])
            else:
                want = []
                for tok in mo[1:]:
                    if tok == "-":
                        want.append(None)
                    else:
                        a, b = tok.split(":")
                        want.append((float(Fraction(a)), float(Fraction(b))))
                got = intervals_from_switches(c, i[1]["switches"])
                bad = None
                for k, (w, g) in enumerate(zip(want, got), start=1):
                    wl = 0.0 if w is None else w[1] - w[0]
                    gl = 0.0 if g is None else g[1] - g[0]
                    if abs(wl - gl) > 1e-6 or (w and g and wl > 1e-6 and (abs(w[0] - g[0]) > 1e-6 or abs(w[1] - g[1]) > 1e-6)):
                        bad = (k, w, g)
                        break
                if bad:
                    run.disagree("burn.intervals", c, f"call {bad[0]}: thrust on {bad[2]}", f"model {bad[1]}")
        for key, what in oracle(run, c, i):
            run.fail(key, c, what)


def search(run: Run):
    sub = Run.__new__(Run)
    sub.__dict__.update(run.__dict__)
    sub.rng = __import__("random").Random(run.seed + 41)
    sub.tier = "thorough"
    for c in cases(sub)[:120]:
        f = oracle(run, c, guarded(impl_run, c))
        if f:
            return (f[0][0], c, f[0][1])
    return None


def main():
    run = Run(
        PID,
        ["RV.Props.C15", "RV.Bridge.Agents", "RV.Bridge.Thrust"],
        ["RV/Model/Burn.lean"],
        "Lean 4 theorem: per propagation call the thrust is on exactly on the overlap of the call with [start, end], hence total on-time = end - start for every "
        "division into calls (telescoping clip) + differential correspondence of the on/off callback times of the real propagators under the real prune rule + "
        "trajectory comparison with an independent coast/thrust/coast integration",
        trusted_extra=[
            "scipy solve_ivp locates a terminal event at its root (abstract integrator); the trajectory equality itself is numerical (reference integration with the same tolerances)",
        ],
    )
    run.rule = ("thrust intervals inside one step, spanning several, aligned at start/end/both, shorter than an internal integrator step, late in a scenario (5 and 20 days); "
                "ECI/NTW burns and spiral/plane-change maneuvers; special-perturbations and two-body models; LEO and GEO; steps 7.5-300 s")
    run.assumptions = ["agreement with the reference within max(2e-9 km/s, 1e-4 of the thrust's effect)"]
    run.lean_phase()
    if run.args.replay:
        rp = json.loads(Path(run.args.replay).read_text())
        cs = [rp["case"]] if rp.get("kind") == "failing-input" else cases(run)
    else:
        cs = cases(run)
    run_cases(run, cs)
    run.finish(search)


if __name__ == "__main__":
    main_guard(main)
