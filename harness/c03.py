"""C03 - orbit propagation is composable, batch-consistent, Kepler-exact and conservative."""
from __future__ import annotations

import json
import math
import sys
from datetime import datetime, timedelta
from fractions import Fraction
from pathlib import Path

sys.path.insert(0, str(Path(__file__).resolve().parent))
import numpy as np
from common import Run, corpus, fmt, frac, guarded, main_guard

PID = "C03"
MU = 398600.4415

# what "the same result within integrator tolerance" means here (rtol 1e-10, atol 1e-12 per step): km, km/s per revolution
POS_TOL_PER_REV = 3e-4
VEL_TOL_PER_REV = 3e-7


def kepler_state(a, e, i, O, w, nu):
    p = a * (1 - e * e)
    r = p / (1 + e * math.cos(nu))
    cO, sO, ci, si, cw, sw = math.cos(O), math.sin(O), math.cos(i), math.sin(i), math.cos(w), math.sin(w)
    P = np.array([cw * cO - sw * ci * sO, cw * sO + sw * ci * cO, sw * si])
    Q = np.array([-sw * cO - cw * ci * sO, -sw * sO + cw * ci * cO, cw * si])
    return np.concatenate([r * (math.cos(nu) * P + math.sin(nu) * Q), math.sqrt(MU / p) * (-math.sin(nu) * P + (e + math.cos(nu)) * Q)])


def orbit(rng):
    while True:
        a = rng.choice([6800.0, 7200.0, 12000.0, 26600.0, 42164.0, 60000.0, rng.uniform(6800, 60000)])
        e = rng.choice([0.0, 1e-3, 0.1, 0.4, 0.7, rng.uniform(0, 0.7)])
        if a * (1 - e) > 6578.0:
            break
    return {"a": a, "e": e, "i": rng.choice([0.0, 0.5, 1.2, math.pi / 2, 2.5, math.pi, rng.uniform(0, math.pi)]), "O": rng.uniform(0, 2 * math.pi),
            "w": rng.uniform(0, 2 * math.pi), "nu": rng.uniform(0, 2 * math.pi)}


def cases(run: Run):
    rng = run.rng
    out = list(corpus(PID))
    for _ in range(run.n(36, 300)):
        kind = rng.choice(["split", "split", "batch", "batch", "bulk", "kepler", "epoch", "epoch", "loop", "reuse"])
        model = "sp" if kind == "epoch" else rng.choice(["two_body", "two_body", "sp"])
        c = {"kind": kind, "model": model, "method": rng.choice(["RK45", "DOP853"]), "orbit": orbit(rng), "seed": rng.randint(0, 10**6)}
        if model == "sp":
            c["dur"] = rng.choice([600.0, 3600.0, 7200.0, 5431.0])
            c["sp"] = {"degree": rng.choice([2, 4]), "bodies": rng.choice([[], ["sun", "moon"], ["moon"]]), "srp": rng.random() < 0.5, "gr": rng.random() < 0.5}
        else:
            c["dur"] = rng.choice([30.0, 600.0, 5400.0, 43200.0, 86400.0, rng.uniform(1, 86400)])
        c["t0"] = rng.choice([0.0, 0.0, 60.0, 86400.0, 12345.0])
        c["frac"] = rng.choice([0.5, 0.01, 0.99, rng.random()])
        # a split point a fraction of a millisecond after the start or before the end (a clock that is a hair off a step boundary): a span that short
        # is still a span, and the state moves 2-8 m in it
        if c["kind"] == "split" and rng.random() < 0.3 and c["dur"] > 1.0:
            off = rng.choice([2.5e-4, 9e-4, 5e-5, 4e-3])
            c["frac"] = (off / c["dur"]) if rng.random() < 0.5 else (1.0 - off / c["dur"])
        c["K"] = rng.choice([2, 3, 5, 13])
        c["layout"] = rng.choice(["C", "F", "T", "slice"])
        c["ntimes"] = rng.choice([2, 3, 7])
        if kind == "epoch":
            kindd = rng.choice(["midyear", "midnight", "yearend", "yearend", "leapyearend"])
            start = {"midyear": datetime(2019, 6, 14, 3, 0, 0), "midnight": datetime(2020, 2, 28, 23, 30, 0), "yearend": datetime(rng.choice([2018, 2019, 2021]), 12, 31, 23, 0, 0),
                     "leapyearend": datetime(2020, 12, 31, 22, 30, 0)}[kindd]
            c["start"] = start.isoformat()
            c["shift"] = rng.choice([600.0, 1800.0, 3600.0, 5400.0])
            c["epoch_kind"] = kindd
        if kind == "loop":
            n = rng.randint(0, 3)
            span = rng.choice([100.0, 1000.0])
            c["dur"] = span
            c["events"] = sorted({float(rng.choice([rng.randint(1, int(span) - 1), rng.randint(1, int(span) - 1) + 0.5])) for _ in range(n)})
            c["dvs"] = [[rng.randint(-3, 3) / 8.0 for _ in range(3)] for _ in c["events"]]
            c["x0"] = [float(rng.randint(-50, 50)) for _ in range(3)] + [rng.randint(-8, 8) / 4.0 for _ in range(3)]
            c["times"] = sorted({float(rng.randint(1, int(span))) for _ in range(c["ntimes"])} | {span})
        out.append(c)
    # pinned: two-body arcs split a fraction of a millisecond after the start and before the end (see the near-edge split points above)
    for off, late in ((2.5e-4, False), (9e-4, True), (5e-5, True))[: run.n(3, 3)]:
        dur = rng.choice([60.0, 600.0, 5400.0])
        out.append({"kind": "split", "model": "two_body", "method": rng.choice(["RK45", "DOP853"]), "orbit": orbit(rng), "seed": rng.randint(0, 10**6), "dur": dur,
                    "t0": rng.choice([0.0, 60.0]), "frac": (1.0 - off / dur) if late else off / dur, "K": 2, "layout": "C", "ntimes": 2})
    # a day-long perturbed arc of a high orbit with the Sun and the Moon, split after a third: over a day the third bodies move by a degree (Sun) and
    # thirteen (Moon), so anything that stops following them between calls, or from one stage to the next, shows
    for _ in range(run.n(1, 4)):
        out.append({"kind": "split", "model": "sp", "method": rng.choice(["RK45", "DOP853"]), "seed": rng.randint(0, 10**6), "dur": 86400.0, "long": True,
                    "orbit": {"a": rng.choice([42164.0, 60000.0]), "e": rng.choice([0.0, 0.3]), "i": rng.choice([0.1, 1.0]), "O": rng.uniform(0, 2 * math.pi), "w": 0.0, "nu": rng.uniform(0, 2 * math.pi)},
                    "sp": {"degree": 2, "bodies": ["sun", "moon"], "srp": False, "gr": False}, "t0": 0.0, "frac": rng.choice([1 / 3, 0.5]), "K": 2, "layout": "C", "ntimes": 2})
    # batches whose members differ in everything that is evaluated per member: radiation pressure on, one member in low orbit (in and out of
    # the Earth's shadow), others high and always lit - so that a quantity computed once per batch instead of once per member shows
    for _ in range(run.n(3, 20)):
        c = {"kind": "batch", "model": "sp", "method": rng.choice(["RK45", "DOP853"]), "seed": rng.randint(0, 10**6), "dur": rng.choice([3600.0, 7200.0]),
             "sp": {"degree": 2, "bodies": rng.choice([[], ["sun", "moon"]]), "srp": True, "gr": False}, "t0": rng.choice([0.0, 60.0]), "frac": 0.5,
             "K": rng.choice([3, 4, 6]), "layout": rng.choice(["C", "F"]), "ntimes": 2}
        leo = {"a": rng.choice([6800.0, 7000.0]), "e": 0.001, "i": rng.choice([0.1, 0.5, 1.2]), "O": rng.uniform(0, 2 * math.pi), "w": 0.0, "nu": rng.uniform(0, 2 * math.pi)}
        others = [{"a": rng.choice([26600.0, 42164.0, 12000.0, 6900.0]), "e": rng.choice([0.0, 0.01]), "i": rng.choice([0.0, 0.9, 1.5]), "O": rng.uniform(0, 2 * math.pi),
                   "w": 0.0, "nu": rng.uniform(0, 2 * math.pi)} for _ in range(c["K"] - 1)]
        members = [leo] + others
        rng.shuffle(members)
        c["orbit"], c["members"] = members[0], members[1:]
        out.append(c)
    return out


# ----------------------------------------------------------------------------- the real propagators
def make_dyn(c, jd_start=None):
    from resonaate.dynamics.special_perturbations import SpecialPerturbations
    from resonaate.dynamics.two_body import TwoBody
    from resonaate.physics.time.stardate import JulianDate, datetimeToJulianDate
    from resonaate.scenario.config.geopotential_config import GeopotentialConfig
    from resonaate.scenario.config.perturbations_config import PerturbationsConfig

    if c["model"] == "two_body":
        return TwoBody(method=c["method"])
    sp = c["sp"]
    if jd_start is None:
        jd_start = datetimeToJulianDate(datetime.fromisoformat(c.get("start", "2020-03-30T16:00:00")))
    return SpecialPerturbations(JulianDate(jd_start), GeopotentialConfig(model="egm96.txt", degree=sp["degree"], order=sp["degree"]),
                                PerturbationsConfig(third_bodies=sp["bodies"], solar_radiation_pressure=sp["srp"], general_relativity=sp["gr"]), 0.02, method=c["method"])


def impl_run(c):
    from resonaate.physics.orbits.kepler import solveKeplerProblemUniversal
    from resonaate.physics.time.stardate import ScenarioTime

    kind = c["kind"]
    T = lambda s: ScenarioTime(float(s))
    x0 = kepler_state(**c["orbit"]) if kind != "loop" else np.array(c["x0"])
    out = {"x0": [float(v) for v in x0]}
    if kind == "split":
        dyn = make_dyn(c)
        t0, t2 = c["t0"], c["t0"] + c["dur"]
        t1 = t0 + c["frac"] * c["dur"]
        whole = dyn.propagate(T(t0), T(t2), x0.copy())
        out["whole"] = [float(v) for v in whole]
        if t0 < t1 < t2:
            mid = make_dyn(c).propagate(T(t0), T(t1), x0.copy())
            out["split"] = [float(v) for v in make_dyn(c).propagate(T(t1), T(t2), np.array(mid))]
        if c["model"] == "two_body":
            out["kepler"] = [float(v) for v in solveKeplerProblemUniversal(x0, c["dur"])]
    elif kind == "kepler":
        c2 = dict(c, model="two_body")
        out["whole"] = [float(v) for v in make_dyn(c2).propagate(T(c["t0"]), T(c["t0"] + c["dur"]), x0.copy())]
        out["kepler"] = [float(v) for v in solveKeplerProblemUniversal(x0, c["dur"])]
        out["kepler_half_twice"] = [float(v) for v in solveKeplerProblemUniversal(solveKeplerProblemUniversal(x0, c["dur"] * c["frac"]), c["dur"] * (1 - c["frac"]))]
    elif kind == "batch":
        rs = np.random.default_rng(c["seed"])
        if "members" in c:
            cols = [x0] + [kepler_state(**m) for m in c["members"]]
        else:
            cols = [x0] + [kepler_state(**{**c["orbit"], "nu": float(rs.uniform(0, 2 * math.pi)), "O": float(rs.uniform(0, 2 * math.pi))}) for _ in range(c["K"] - 1)]
        X = np.array(cols).T.copy()  # (6, K) C-contiguous
        if c["layout"] == "F":
            Xin = np.asfortranarray(X)
        elif c["layout"] == "T":
            Xin = np.array(cols).T  # transposed view of a (K, 6) array: not C-contiguous
        elif c["layout"] == "slice":
            big = np.zeros((6, 2 * c["K"]))
            big[:, ::2] = X
            Xin = big[:, ::2]
        else:
            Xin = X
        assert np.array_equal(Xin, X)
        t0, t1 = c["t0"], c["t0"] + min(c["dur"], 7200.0)
        batch = make_dyn(c).propagate(T(t0), T(t1), Xin)
        out["batch"] = [[float(v) for v in np.asarray(batch)[:, k]] for k in range(c["K"])]
        out["single"] = [[float(v) for v in make_dyn(c).propagate(T(t0), T(t1), np.array(col))] for col in cols]
        # the derivative itself, exactly: batched against per column
        dyn = make_dyn(c)
        flat = X.ravel()
        d = dyn._differentialEquation(float(t0), flat.copy())  # solve_ivp hands plain floats to the right-hand side
        out["deriv_batch"] = [float(v) for v in d]
        out["deriv_cols"] = [[float(v) for v in dyn._differentialEquation(float(t0), np.array(col))] for col in cols]
        out["flat"] = [float(v) for v in flat]
        out["cols"] = [[float(v) for v in col] for col in cols]
        n = 6 * c["K"]
        idx = np.arange(n)
        step, half = int(n / 6), int(n / 2)
        out["slices"] = [[[int(v) for v in idx[jj: jj + half: step]], [int(v) for v in idx[jj + half:: step]]] for jj in range(c["K"])]
    elif kind == "bulk":
        t0 = c["t0"]
        dur = min(c["dur"], 7200.0) if c["model"] == "sp" else c["dur"]
        times = [t0 + dur * (k + 1) / c["ntimes"] for k in range(c["ntimes"])]
        res = make_dyn(c).propagateBulk([T(t0)] + [T(t) for t in times], x0.copy())
        out["bulk"] = [[float(v) for v in np.asarray(res)[:, k]] for k in range(len(times))]
        out["single"] = [[float(v) for v in make_dyn(c).propagate(T(t0), T(t), x0.copy())] for t in times]
        out["times"] = times
    elif kind == "epoch":
        from resonaate.physics.time.stardate import datetimeToJulianDate

        start = datetime.fromisoformat(c["start"])
        jd_a = datetimeToJulianDate(start)
        jd_b = datetimeToJulianDate(start + timedelta(seconds=c["shift"]))
        dur = c["dur"]
        # the same absolute interval [start + shift, start + shift + dur], described two ways
        a = make_dyn(c, jd_a).propagate(T(c["shift"]), T(c["shift"] + dur), x0.copy())
        b = make_dyn(c, jd_b).propagate(T(0.0), T(dur), x0.copy())
        out["a"], out["b"] = [float(v) for v in a], [float(v) for v in b]
        out["jd"] = [float(jd_a), float(jd_b), float(jd_a) + c["shift"] / 86400]
        # the acceleration at one instant, described both ways
        da = make_dyn(c, jd_a)._differentialEquation(float(c["shift"] + dur), x0.copy())
        db = make_dyn(c, jd_b)._differentialEquation(float(dur), x0.copy())
        out["da"], out["db"] = [float(v) for v in da], [float(v) for v in db]
        # ... and each switchable term by itself (with the term minus without it), described both ways: a small term such as radiation
        # pressure would otherwise hide below the rounding of the total
        out["terms"] = {}
        for name, off in (("srp", {"srp": False}), ("gr", {"gr": False}), ("bodies", {"bodies": []}), ("geopotential", {"degree": 0})):
            if (name == "srp" and not c["sp"]["srp"]) or (name == "gr" and not c["sp"]["gr"]) or (name == "bodies" and not c["sp"]["bodies"]):
                continue
            c_off = dict(c, sp={**c["sp"], **off})
            ta = np.array(da) - np.array(make_dyn(c_off, jd_a)._differentialEquation(float(c["shift"] + dur), x0.copy()))
            tb = np.array(db) - np.array(make_dyn(c_off, jd_b)._differentialEquation(float(dur), x0.copy()))
            out["terms"][name] = ([float(v) for v in ta[3:]], [float(v) for v in tb[3:]])
    elif kind == "reuse":
        # one dynamics object with a history (an impulse, a finite burn that outlasts its call) against a fresh object on an event-free call
        from resonaate.dynamics.integration_events import scheduled_impulse as si
        from resonaate.dynamics.integration_events.finite_thrust import ScheduledFiniteBurn
        dyn = make_dyn(c)
        t0 = c["t0"]
        span = min(c["dur"], 1800.0)
        old_push = si.EventStack.pushEvent
        si.EventStack.pushEvent = classmethod(lambda cls, rec: None)
        try:
            hist = []
            if c["seed"] % 2 == 0:
                hist.append(si.ScheduledECIImpulse(T(t0 + span / 3), np.array([0.0, 0.001, 0.0]), 1))
            # a burn that starts inside the first call and is still running when it ends
            from functools import partial

            from resonaate.dynamics.integration_events.finite_thrust import eciBurn

            hist.append(ScheduledFiniteBurn(T(t0 + span / 2), T(t0 + 3 * span), partial(eciBurn, acc_vector=np.array([0.0, 1e-6, 0.0])), 1))
            x_mid = dyn.propagate(T(t0), T(t0 + span), x0.copy(), scheduled_events=hist)
        finally:
            si.EventStack.pushEvent = old_push
        out["reused"] = [float(v) for v in dyn.propagate(T(t0 + span), T(t0 + 2 * span), np.array(x_mid))]
        out["fresh"] = [float(v) for v in make_dyn(c).propagate(T(t0 + span), T(t0 + 2 * span), np.array(x_mid))]
    elif kind == "loop":
        from resonaate.dynamics.celestial import Celestial
        from resonaate.dynamics.integration_events import scheduled_impulse as si

        class Line(Celestial):
            def _differentialEquation(self, time, state, check_collision=True):
                step, half = int(state.shape[0] / 6), int(state.shape[0] / 2)
                d = np.empty_like(state, dtype=float)
                for jj in range(step):
                    d[jj: jj + half: step] = state[jj + half:: step]
                    d[jj + half:: step] = 0.0
                return d

        from resonaate.dynamics.dynamics_base import DynamicsErrorFlag

        old = si.EventStack.pushEvent
        si.EventStack.pushEvent = classmethod(lambda cls, rec: None)
        try:
            mk = lambda: [si.ScheduledECIImpulse(T(c["t0"] + te), np.array(dv), 1) for te, dv in zip(c["events"], c["dvs"])]
            flags = DynamicsErrorFlag(0)
            out["end"] = [float(v) for v in Line(method=c["method"]).propagate(T(c["t0"]), T(c["t0"] + c["dur"]), x0.copy(), scheduled_events=mk(), error_flags=flags)]
            # propagateBulk with events is only ever called with a (6, N) population (genetic particle filter)
            res = Line(method=c["method"]).propagateBulk([T(c["t0"])] + [T(c["t0"] + t) for t in c["times"]], x0.copy()[:, None], scheduled_events=mk(), error_flags=flags)
            out["bulk"] = [[float(v) for v in np.asarray(res)[:, 0, k]] for k in range(len(c["times"]))]
        finally:
            si.EventStack.pushEvent = old
    return out


def diff(a, b):
    a, b = np.asarray(a), np.asarray(b)
    return float(np.linalg.norm(a[:3] - b[:3])), float(np.linalg.norm(a[3:] - b[3:]))


def oracle(run: Run, c, impl):
    if impl[0] != "ok":
        return [("raises", f"{impl[1]} ({c['kind']}, {c['model']}, {c['method']})")]
    o = impl[1]
    fails = []
    ob = c["orbit"]
    desc = f"{c['model']}/{c['method']} a={ob['a']:.1f} e={ob['e']:.3f} i={ob['i']:.3f}, {c['dur']:.1f} s from t0={c['t0']}"
    days = max(c["dur"], 600.0) / 86400.0
    # integration error accumulates per revolution: 3e-4 km and 3e-7 km/s per revolution (floor: one revolution)
    revs = max(1.0, c["dur"] / (2 * math.pi * math.sqrt(ob["a"] ** 3 / MU)))
    ptol, vtol = POS_TOL_PER_REV * revs, VEL_TOL_PER_REV * revs

    def same(key, x, y, what, pt=ptol, vt=vtol):
        dp, dv = diff(x, y)
        run.worse(key, dp)
        run.worse(key + ":v", dv)
        if not (dp <= pt and dv <= vt):
            fails.append((key, f"{what}: positions differ by {dp:.3g} km, velocities by {dv:.3g} km/s ({desc})"))

    if "split" in o:
        same("split", o["whole"], o["split"], f"t0->t2 against t0->t1->t2 with t1 at {c['frac']:.3f} of the span")
    if "kepler" in o and "whole" in o:
        same("kepler", o["whole"], o["kepler"], "integrated two-body state against the closed-form Kepler solution")
        x0, x1 = np.array(o["x0"]), np.array(o["whole"])
        en = lambda x: 0.5 * float(x[3:] @ x[3:]) - MU / float(np.linalg.norm(x[:3]))
        h0, h1 = np.cross(x0[:3], x0[3:]), np.cross(x1[:3], x1[3:])
        de, dh = abs(en(x1) - en(x0)) / abs(en(x0)), float(np.linalg.norm(h1 - h0) / np.linalg.norm(h0))
        run.worse("energy-drift", de)
        run.worse("h-drift", dh)
        if not (de <= 2e-9 * revs and dh <= 2e-9 * revs):
            fails.append(("conservation", f"two-body propagation changed the orbital energy by {de:.3g} and the angular momentum by {dh:.3g} (relative) ({desc})"))
    if "kepler_half_twice" in o:
        same("kepler-compose", o["kepler"], o["kepler_half_twice"], "closed-form solution in one step against two steps", pt=5e-6 * revs + 2e-10 * ob["a"] * revs, vt=5e-9 * revs)
    if c["kind"] == "batch":
        for k, (b, s) in enumerate(zip(o["batch"], o["single"])):
            same("batch", b, s, f"column {k} of a batch of {c['K']} ({c['layout']} layout) against the same state propagated alone",
                 # with radiation pressure the right-hand side jumps at the shadow boundary: either run is then only good to ~0.5 m after two hours
                 # (measured against a 1e-13 reference: batch 0.39 m, alone 0.43 m, on opposite sides)
                 pt=max(ptol, 1e-3 if (c["model"] == "sp" and c["sp"]["srp"]) else 2e-5), vt=max(vtol, 1e-6 if (c["model"] == "sp" and c["sp"]["srp"]) else 2e-8))
            if fails:
                break
        K = c["K"]
        db = np.array(o["deriv_batch"]).reshape(6, K)
        for k in range(K):
            if not np.array_equal(db[:, k], np.array(o["deriv_cols"][k])):
                fails.append(("batch:derivative", f"the derivative of column {k} inside a batch of {K} differs from the derivative of that state alone ({desc})"))
                break
    if c["kind"] == "bulk":
        for k, (b, s) in enumerate(zip(o["bulk"], o["single"])):
            last = k == len(o["bulk"]) - 1
            # the last requested time is the end of the very same integration as the separate call (measured agreement 4e-12 km); the earlier ones are
            # read off the solver's interpolant (measured up to 7e-6 km)
            same("bulk", b, s, f"output {k} of propagateBulk (t={o['times'][k]:.2f}{', the final time' if last else ''}) against a separate propagate call with the same integrator",
                 pt=1e-8 if last else 5e-5, vt=1e-11 if last else 5e-8)
            if fails:
                break
    if c["kind"] == "reuse":
        if o["reused"] != o["fresh"]:
            dp, dv = diff(o["reused"], o["fresh"])
            fails.append(("reuse", f"an event-free propagation on a dynamics object that earlier ran a call with events differs from the same call on a fresh object "
                                   f"by {dp:.6g} km, {dv:.3g} km/s ({desc})"))
    if c["kind"] == "epoch":
        same("epoch", o["a"], o["b"], f"the interval starting {c['shift']} s after {c['start']} described as (start, elapsed) and as (shifted start, 0) [{c['epoch_kind']}]",
             # with radiation pressure the shadow entry/exit is a kink in the force: two runs whose step sequences differ (here only through rounding of the time variable)
             # land up to ~1e-3 km apart with the 8th-order method; the force at an instant itself is compared below to 1e-9
             pt=1e-3 if c["sp"]["srp"] else 2e-6, vt=1e-6 if c["sp"]["srp"] else 2e-9)
        da, db = np.array(o["da"]), np.array(o["db"])
        rel = float(np.linalg.norm(da[3:] - db[3:]) / np.linalg.norm(da[3:]))
        for name, (ta, tb) in o.get("terms", {}).items():
            ta, tb = np.array(ta), np.array(tb)
            scale = float(np.linalg.norm(ta))
            # the term is a difference of two totals: it is known to the rounding of the total only
            floor = 4e-16 * float(np.linalg.norm(da[3:]))
            rt = float(np.linalg.norm(ta - tb) / max(scale, 1e-300))
            run.worse(f"epoch:term:{name}", rt if scale > 1e3 * floor else 0.0)
            if scale > 1e3 * floor and not rt <= 1e-5 + 10 * floor / scale:
                fails.append(("epoch:term", f"the {name} term at the same absolute instant differs by {rt:.3g} (relative) between the two descriptions of the epoch "
                                            f"[{c['epoch_kind']}, start {c['start']}, shift {c['shift']}] ({desc})"))
        run.worse("epoch:acc", rel)
        if not rel <= 1e-9:
            fails.append(("epoch:acceleration", f"the acceleration at the same absolute instant differs by {rel:.3g} (relative) between the two descriptions of the epoch [{c['epoch_kind']}, start {c['start']}, shift {c['shift']}] ({desc})"))
    return fails


# ----------------------------------------------------------------------------- model correspondence
def model_lines(c, o):
    L = []
    if c["kind"] == "batch":
        K = c["K"]
        for jj in range(K):
            L.append((f"slices:{jj}", f"pr.slices {K} {jj}"))
        # the model's ravel applied to the per-column derivatives must be the batched derivative
        L.append(("ravel-deriv", f"pr.ravel {K} " + " ".join(fmt(frac(v)) for col in o["deriv_cols"] for v in col)))
        L.append(("ravel", f"pr.ravel {K} " + " ".join(fmt(frac(v)) for col in o["cols"] for v in col)))
    if c["kind"] == "loop":
        ev = " ".join(f"{fmt(frac(c['t0'] + te))} " + " ".join(fmt(frac(v)) for v in dv) for te, dv in zip(c["events"], c["dvs"]))
        x = " ".join(fmt(frac(v)) for v in c["x0"])
        L.append(("run", f"pr.run {len(c['events'])} {ev} {fmt(frac(c['t0']))} {fmt(frac(c['t0'] + c['dur']))} {x}"))
        ts = " ".join(fmt(frac(c["t0"] + t)) for t in c["times"])
        L.append(("bulk", f"pr.bulk {len(c['events'])} {ev} {fmt(frac(c['t0']))} {len(c['times'])} {ts} {x}"))
    if c["kind"] == "epoch":
        L.append(("epoch", f"pr.epoch {fmt(frac(o['jd'][0]))} {fmt(frac(c['shift']))}"))
    return L


def compare(run: Run, c, o, key, out):
    if out == "bad-op":
        run.disagree(key, c, "ok", out)
        return
    if key.startswith("slices:"):
        jj = int(key.split(":")[1])
        want = " ".join(map(str, o["slices"][jj][0])) + " | " + " ".join(map(str, o["slices"][jj][1]))
        if out != want:
            run.disagree(key, c, want, out)
    elif key in ("ravel", "ravel-deriv"):
        got = [Fraction(t) for t in out.split()]
        want = [frac(v) for v in (o["flat"] if key == "ravel" else o["deriv_batch"])]
        if got != want:
            run.disagree(key, c, str(want[:12]), str(got[:12]))
    elif key == "run":
        got = [float(Fraction(t)) for t in out.split()]
        if not np.allclose(got, o["end"], rtol=0, atol=1e-8):
            run.disagree(key, c, str(o["end"]), str(got))
    elif key == "bulk":
        got = [[float(Fraction(t)) for t in part.split()] for part in out.split(";")]
        if len(got) != len(o["bulk"]) or not all(np.allclose(g, w, rtol=0, atol=1e-8) for g, w in zip(got, o["bulk"])):
            run.disagree(key, c, str(o["bulk"]), str(got))
    elif key == "epoch":
        if Fraction(out) != frac(o["jd"][2]):
            run.disagree(key, c, repr(o["jd"][2]), out)


def run_cases(run: Run, cs):
    impls = [guarded(impl_run, c) for c in cs]
    plan, lines = [], []
    for idx, (c, i) in enumerate(zip(cs, impls)):
        if i[0] == "ok":
            for key, l in model_lines(c, i[1]):
                plan.append((idx, key))
                lines.append(l)
    outs = run.model(lines)
    if outs is not None:
        for (idx, key), out in zip(plan, outs):
            run.model_compared += 1
            compare(run, cs[idx], impls[idx][1], key, out)
    for c, i in zip(cs, impls):
        run.case(c["kind"], {k: v for k, v in c.items()}, nontrivial=True, branch=f"{c['kind']}:{c['model']}:{c['method']}")
        for key, what in oracle(run, c, i):
            run.fail(key, c, what)


def search(run: Run):
    sub = Run.__new__(Run)
    sub.__dict__.update(run.__dict__)
    sub.rng = __import__("random").Random(run.seed + 67)
    sub.tier = "quick"
    for c in cases(sub)[:60]:
        f = oracle(run, c, guarded(impl_run, c))
        if f:
            return (f[0][0], c, f[0][1])
    return None


def main():
    run = Run(
        PID,
        ["RV.Props.C03"],
        ["RV/Model/Propagate.lean"],
        "Lean 4 theorems over an abstract lawful flow (composability of the restart loop at every split point with any ordered state-jump events; bulk output = separate calls; "
        "batch derivative = per-column derivative for every batch size via the exact index arithmetic of the strided slices; angular momentum of the Lagrange-coefficient solution; "
        "binary64 bound on the epoch under a start-date/elapsed-time split) + exact correspondence of the layout, loop and epoch models with the real code + the metamorphic "
        "relations evaluated on the real integrators (both methods, two-body and perturbed)",
        trusted_extra=[
            "scipy solve_ivp approximates a lawful flow within its tolerances (rtol 1e-10, atol 1e-12): the relations between real trajectories are checked to 3e-4 km / 3e-7 km/s per revolution",
            "the loop restarts one ulp after an event time (solution.t[-1] + spacing); the model restarts at the event time",
            "convergence of the universal-variable Kepler iteration is exercised on the real code only",
        ],
    )
    run.rule = ("bound orbits a 6800-60000 km, e <= 0.7, any inclination; spans 1 s - 1 day (perturbed: 10 min - 2 h); split points at 1 %, 50 %, 99 % and random; batches of 2-13 states in "
                "C, Fortran, transposed-view and strided-slice layouts; 2-7 output times; start epochs before UTC midnight, year ends (common and leap) shifted by 10-90 min; RK45 and DOP853; "
                "constant-velocity dynamics with 0-3 impulses through the real propagate/propagateBulk loop")
    run.assumptions = ["epoch-split trajectories with radiation pressure agree to 1e-3 km (shadow-boundary kink), without to 2e-6 km; the acceleration at one instant to 1e-9 relative in all cases",
                       "'within integrator tolerance' = 3e-4 km and 3e-7 km/s per revolution propagated (floor: one revolution)"]
    run.lean_phase()
    if run.args.replay:
        rp = json.loads(Path(run.args.replay).read_text())
        cs = [rp["case"]] if rp.get("kind") == "failing-input" else cases(run)
    else:
        cs = cases(run)
    run_cases(run, cs)
    run.finish(search)


if __name__ == "__main__":
    main_guard(main)
