"""C05 - calendar, Julian-date and scenario times agree; requested durations are honoured."""
from __future__ import annotations

import json
import logging
import sys
from datetime import datetime, timedelta
from fractions import Fraction
from pathlib import Path
from types import SimpleNamespace

sys.path.insert(0, str(Path(__file__).resolve().parent))
import numpy as np
from common import Run, Toks, corpus, fmt, frac, guarded, main_guard

PID = "C05"
EPOCH = datetime(1970, 1, 1)
LO, HI = datetime(1901, 3, 1), datetime(2099, 12, 31, 23, 59, 59)
SPAN = int((HI - LO).total_seconds())


def rand_instant(rng, micro=False):
    kind = rng.choice(["uniform", "uniform", "boundary", "leap", "secstrat"])
    if kind == "uniform":
        t = LO + timedelta(seconds=rng.randint(0, SPAN))
    elif kind == "boundary":
        y = rng.randint(1902, 2099)
        base = rng.choice([datetime(y, 1, 1), datetime(y, 12, 31), datetime(y, 3, 1), datetime(y, 2, 28), datetime(y, rng.randint(1, 12), 1)])
        t = base + timedelta(seconds=rng.choice([0, 1, 59, 60, 3599, 3600, 43200, 86399, 86340, -1, -60]))
    elif kind == "leap":
        y = rng.choice([1904, 1996, 2000, 2016, 2020, 2024, 2096])
        t = rng.choice([datetime(y, 2, 29), datetime(y, 12, 31), datetime(y, 3, 1)]) + timedelta(seconds=rng.randint(0, 86399))
    else:
        t = LO + timedelta(days=rng.randint(0, SPAN // 86400), hours=rng.randint(0, 23), minutes=rng.randint(0, 59), seconds=rng.choice([0, 1, 17, 29, 30, 31, 58, 59]))
    t = min(max(t, LO), HI)
    if micro:
        t = t.replace(microsecond=rng.choice([1, 250000, 500000, 999999, rng.randint(0, 999999)]))
    return t


def cases(run: Run):
    rng = run.rng
    out = list(corpus(PID))
    for _ in range(run.n(3000, 40000)):
        out.append({"op": "instant", "t": rand_instant(rng).isoformat()})
    for _ in range(run.n(500, 5000)):
        out.append({"op": "instant", "t": rand_instant(rng, micro=True).isoformat()})
    # every second of some days (the conversion error depends on the second of day)
    for _ in range(run.n(1, 6)):
        day = LO + timedelta(days=rng.randint(0, SPAN // 86400))
        day = day.replace(hour=0, minute=0, second=0)
        step = 7 if run.quick() else 1
        for s in range(rng.randint(0, step - 1), 86400, step):
            out.append({"op": "instant", "t": (day + timedelta(seconds=s)).isoformat(), "src": "full-day"})
    for bad in ([2021, 13, 1, 0, 0, 0], [2021, 0, 1, 0, 0, 0], [2021, 1, 32, 0, 0, 0], [2021, 1, 1, 25, 0, 0], [2021, 1, 1, 0, 61, 0], [2021, 1, 1, 0, 0, 61]):
        out.append({"op": "malformed", "args": bad})
    for _ in range(run.n(1500, 15000)):
        t0 = rand_instant(rng)
        kind = rng.choice(["int", "int", "big", "frac"])
        t = rng.randint(0, 86400 * 3) if kind == "int" else (rng.randint(0, 10**7) if kind == "big" else rng.randint(0, 10**6) / 8.0)
        out.append({"op": "offset", "t0": t0.isoformat(), "t": float(t)})
    for _ in range(run.n(600, 8000)):
        t0 = rand_instant(rng)
        dt = rng.choice([2, 5, 10, 30, 60, 60, 60, 120, 300, 600, 900, 7, 45])
        k = rng.randint(1, 200)
        D = k * dt + rng.choice([0, 0, 0, 1, dt - 1, dt // 2])
        if rng.random() < 0.2:
            D = rng.choice([3600, 7200, 10800, 86400, 90000, 172800 + 5400])
        out.append({"op": "run", "t0": t0.isoformat(), "D": int(D), "dt": int(dt)})
    # the duration as the command line gives it: decimal hours handed to the real runResonaate (steps chosen so that k steps are a terminating decimal of hours)
    for _ in range(run.n(60, 600)):
        dt = rng.choice([36, 36, 18, 72, 90, 180, 360, 9])
        k = rng.randint(1, 4800 if dt <= 36 else 900)
        out.append({"op": "cli", "t0": rand_instant(rng).isoformat(), "dt": dt, "k": k, "hours": repr(k * dt / 3600)})
    # the epochs the real ScenarioClock lays out when it is built: spans that are, and mostly are NOT, a whole number of steps
    for _ in range(run.n(120, 1500)):
        dt = rng.choice([2, 5, 7, 10, 30, 45, 60, 60, 120, 300, 0.5, 1.5])
        k = rng.randint(1, 120)
        span = k * dt + rng.choice([0, 0, 1, dt / 2, dt - 0.25, 0.125])
        out.append({"op": "clock", "t0": rand_instant(rng).isoformat(), "dt": float(dt), "span": float(span)})
    # consecutive run calls on one real scenario (truth only): every leg advances by its own floor(D/step), the recorded epochs are start + k*step
    for _ in range(run.n(1, 6)):
        dt = rng.choice([60, 60, 30, 7])
        t0 = rand_instant(rng).replace(year=2021, month=rng.randint(1, 12), day=rng.randint(1, 28))
        legs = [rng.randint(1, 4) * dt + rng.choice([0, 0, 1, dt - 1]) for _ in range(rng.randint(2, 4))]
        out.append({"op": "legs", "t0": t0.isoformat(), "dt": dt, "legs": legs})
    return out


# ----------------------------------------------------------------------------- real code
def civil_secs(dt: datetime) -> int:
    d = dt - EPOCH
    return d.days * 86400 + d.seconds


class _NullDB:
    def insertData(self, *a, **k):
        return None


class _RecDB:
    def __init__(self):
        self.rows = []

    def insertData(self, *a, **k):
        self.rows.extend(a)


def real_clock(start, span, dt, db=None):
    import resonaate.scenario.clock as clk

    old = clk.getDBConnection
    clk.getDBConnection = lambda: (db if db is not None else _NullDB())
    try:
        return clk.ScenarioClock(start, span, dt)
    finally:
        clk.getDBConnection = old


def impl_case(c):
    from resonaate.physics.time import stardate as SD
    from resonaate.physics.time.conversions import getTargetJulianDate

    op = c["op"]
    if op == "instant":
        t = datetime.fromisoformat(c["t"])
        jd = SD.datetimeToJulianDate(t)
        cal = SD.getCalendarDate(jd)
        back = SD.julianDateToDatetime(SD.JulianDate(float(jd)))
        nxt = SD.datetimeToJulianDate(t + timedelta(seconds=1))
        return {"jd": float(jd), "cal": [int(cal[0]), int(cal[1]), int(cal[2]), float(cal[3]), float(cal[4]), float(cal[5])], "back": civil_secs(back), "back_iso": back.isoformat(), "next": float(nxt)}
    if op == "malformed":
        try:
            SD.JulianDate.getJulianDate(*c["args"])
            return {"err": "none"}
        except ValueError:
            return {"err": "ValueError"}
    if op == "offset":
        t0 = datetime.fromisoformat(c["t0"])
        jd0 = SD.datetimeToJulianDate(t0)
        st = SD.ScenarioTime(c["t"])
        jd = st.convertToJulianDate(jd0)
        back = SD.JulianDate(float(jd)).convertToScenarioTime(jd0)
        return {"jd0": float(jd0), "jd": float(jd), "back": float(back)}
    if op == "clock":
        t0 = datetime.fromisoformat(c["t0"])
        db = _RecDB()
        clock = real_clock(t0, c["span"], c["dt"], db)
        rows = [(r.timestampISO, float(r.julian_date)) for r in db.rows]
        ticks = []
        for _ in range(min(int(c["span"] // c["dt"]), 40)):
            clock.ticToc()
            ticks.append((clock.datetime_epoch.isoformat(timespec="microseconds"), float(clock.julian_date_epoch), float(clock.time)))
        return {"rows": rows, "ticks": ticks, "jd0": float(clock.julian_date_start)}
    if op == "run":
        from resonaate.scenario.scenario import Scenario

        t0 = datetime.fromisoformat(c["t0"])
        D, dt = c["D"], c["dt"]
        clock = real_clock(t0, float(dt), float(dt))
        steps = []
        stub = SimpleNamespace(
            clock=clock, logger=logging.getLogger("verif-null"), physics_time_step=SD.ScenarioTime(dt), output_time_step=SD.ScenarioTime(dt),
            scenario_config=SimpleNamespace(propagation=SimpleNamespace(truth_simulation_only=True)),
        )

        def step():
            clock.ticToc()
            steps.append((civil_secs(clock.datetime_epoch), float(clock.julian_date_epoch)))

        stub.stepForward = step
        stub.saveDatabaseOutput = lambda: None
        stub.current_julian_date = clock.julian_date_start
        target = getTargetJulianDate(clock.julian_date_start, timedelta(seconds=D))
        try:
            Scenario.propagateTo(stub, target)
            err = None
        except ValueError:
            err = "ValueError"
        return {"steps": len(steps), "err": err, "epochs": [s[0] for s in steps], "jds": [s[1] for s in steps], "target": float(target), "jd0": float(clock.julian_date_start)}
    if op == "cli":
        import resonaate
        import resonaate.scenario as RS
        from resonaate.scenario.scenario import Scenario

        t0 = datetime.fromisoformat(c["t0"])
        dt = c["dt"]
        clock = real_clock(t0, float(dt), float(dt))
        steps = []
        stub = SimpleNamespace(
            clock=clock, logger=logging.getLogger("verif-null"), physics_time_step=SD.ScenarioTime(dt), output_time_step=SD.ScenarioTime(dt),
            scenario_config=SimpleNamespace(propagation=SimpleNamespace(truth_simulation_only=True)), current_julian_date=clock.julian_date_start,
        )

        def step():
            clock.ticToc()
            stub.current_julian_date = clock.julian_date_epoch
            steps.append(civil_secs(clock.datetime_epoch))

        stub.stepForward = step
        stub.saveDatabaseOutput = lambda: None
        stub.shutdown = lambda *a, **k: None
        stub.propagateTo = lambda target: Scenario.propagateTo(stub, target)
        old = RS.buildScenarioFromConfigFile
        RS.buildScenarioFromConfigFile = lambda *a, **k: stub
        try:
            resonaate.runResonaate("unused.json", sim_time_hours=float(c["hours"]))
        finally:
            RS.buildScenarioFromConfigFile = old
        return {"steps": len(steps), "last": steps[-1] if steps else None}
    if op == "legs":
        import sqlite3

        import scen

        t0 = datetime.fromisoformat(c["t0"])
        dt = c["dt"]
        tgt = scen.target_cfg(10001, [7000.0, 0.0, 0.0], [0.0, 7.0, 2.8])
        cfg = scen.scenario_cfg(t0, dt, dt * 3, [scen.engine_cfg(1, [tgt], [scen.radar_cfg(60001, 0.0, 0.0)])], truth_only=True)
        app = scen.build(cfg)
        per_leg = []
        try:
            for D in c["legs"]:
                before = float(app.clock.time)
                target = getTargetJulianDate(app.clock.julian_date_epoch, timedelta(seconds=D))
                try:
                    app.propagateTo(target)
                    per_leg.append(int(round((float(app.clock.time) - before) / dt)))
                except ValueError:
                    per_leg.append("ValueError")
            con = sqlite3.connect(app._verif_db_path)
            epochs = [r[0] for r in con.execute("select timestampISO from epochs order by julian_date").fetchall()]
            con.close()
        finally:
            scen.cleanup()
        return {"per_leg": per_leg, "epochs": epochs, "clock": float(app.clock.time)}
    raise KeyError(op)


def model_lines(c, i):
    op = c["op"]
    if op == "instant":
        t = datetime.fromisoformat(c["t"])
        return [f"time.jd {t.year} {t.month} {t.day} {t.hour} {t.minute} {t.second} {t.microsecond}", f"time.cal {fmt(i['jd'])}", f"time.j2d nearest {fmt(i['jd'])}"]
    if op == "malformed":
        a = c["args"]
        return [f"time.jd {a[0]} {a[1]} {a[2]} {a[3]} {a[4]} {a[5]} 0"]
    if op == "offset":
        return [f"time.toJD {fmt(i['jd0'])} {fmt(c['t'])}", f"time.toSec {fmt(i['jd'])} {fmt(i['jd0'])}"]
    if op in ("cli", "legs"):
        return []
    if op == "clock":
        n = int(c["span"] // c["dt"])
        return [f"time.toJD {fmt(i['jd0'])} {fmt(k * c['dt'])}" for k in range(min(n, 40) + 1)]
    if op == "run":
        t = datetime.fromisoformat(c["t0"])
        return [f"time.run nearest {t.year} {t.month} {t.day} {t.hour} {t.minute} {t.second} {c['D']} {c['dt']}", f"time.target nearest {fmt(i['jd0'])} {c['D']}"]
    raise KeyError(op)


def compare(run, c, i, mo):
    op = c["op"]
    if op == "instant":
        if "out-of-model" in mo[0]:
            return "model out of range"
        if Fraction(mo[0]) != frac(i["jd"]):
            return f"Julian date bits differ: impl {i['jd']!r} model {float(Fraction(mo[0]))!r}"
        t = mo[1].split()
        want = [int(t[0]), int(t[1]), int(t[2]), Fraction(t[3]), Fraction(t[4]), Fraction(t[5])]
        got = i["cal"]
        if got[:3] != want[:3] or any(frac(g) != w for g, w in zip(got[3:], want[3:])):
            return f"calendar fields differ: impl {got} model {[float(x) for x in want]}"
        if int(mo[2]) != i["back"]:
            return f"julianDateToDatetime differs: impl {i['back_iso']} model secs {mo[2]}"
    elif op == "malformed":
        if (mo[0] == "ValueError") != (i["err"] == "ValueError"):
            return f"error behaviour differs: impl {i['err']} model {mo[0]}"
    elif op == "offset":
        if Fraction(mo[0]) != frac(i["jd"]):
            return "convertToJulianDate bits differ"
        if Fraction(mo[1]) != frac(i["back"]):
            return "convertToScenarioTime bits differ"
    elif op == "clock":
        for k, m in enumerate(mo):
            if k < len(i["rows"]) and Fraction(m) != frac(i["rows"][k][1]):
                return f"stored epoch {k}: Julian date bits differ from convertToJulianDate(start, k*step): impl {i['rows'][k][1]!r} model {float(Fraction(m))!r}"
            if 1 <= k <= len(i["ticks"]) and Fraction(m) != frac(i["ticks"][k - 1][1]):
                return f"clock tick {k}: Julian date bits differ from the model: impl {i['ticks'][k - 1][1]!r}"
    elif op == "run":
        if Fraction(mo[1]) != frac(i["target"]):
            return f"getTargetJulianDate differs: impl {i['target']!r}"
        want = mo[0]
        got = "ValueError" if i["err"] else str(i["steps"])
        if want != got:
            return f"step count differs: impl {got} model {want}"
    return None


def oracle(run: Run, c, impl):
    op = c["op"]
    if impl[0] != "ok":
        return [(f"{op}:raises", f"{impl[1]}")]
    i = impl[1]
    fails = []
    if op == "instant":
        t = datetime.fromisoformat(c["t"])
        if t.microsecond == 0:
            if i["back"] != civil_secs(t):
                fails.append(("roundtrip", f"{c['t']} -> JD {i['jd']!r} -> {i['back_iso']}"))
            if not i["next"] > i["jd"]:
                fails.append(("monotonic", f"JD({c['t']} + 1 s) = {i['next']!r} is not greater than JD = {i['jd']!r}"))
        else:
            # sub-second instants: the whole-second reading is within one second
            if abs(i["back"] - civil_secs(t)) > 1:
                fails.append(("roundtrip-micro", f"{c['t']} -> {i['back_iso']}"))
    elif op == "offset":
        err = abs(i["back"] - c["t"])
        run.worse("offset-roundtrip-s", err)
        if err > 1e-4:
            fails.append(("offset", f"scenario offset {c['t']} s from {c['t0']} comes back as {i['back']!r} (error {err:.3g} s)"))
    elif op == "cli":
        if i["steps"] != c["k"]:
            fails.append(("cli:steps", f"runResonaate for {c['hours']} h ({c['k']} x {c['dt']} s) from {c['t0']} with a {c['dt']} s step took {i['steps']} steps, expected {c['k']}"))
        elif i["last"] != civil_secs(datetime.fromisoformat(c["t0"])) + c["k"] * c["dt"]:
            fails.append(("cli:epoch", f"runResonaate for {c['hours']} h from {c['t0']}: the last epoch is not start + {c['k']} x {c['dt']} s"))
    elif op == "legs":
        dt = c["dt"]
        want = [D // dt if D // dt >= 1 else "ValueError" for D in c["legs"]]
        if i["per_leg"] != want:
            fails.append(("legs:steps", f"start {c['t0']}, step {dt} s: consecutive run calls of {c['legs']} s advanced {i['per_leg']} steps, expected {want}"))
        total = sum(w for w in want if w != "ValueError")
        t0 = datetime.fromisoformat(c["t0"])
        # the clock writes the epochs of the configured span (3 steps here) when it is built; beyond that, one epoch per step taken
        n_rows = max(total, 3) + 1
        exp = [(t0 + timedelta(seconds=k * dt)).isoformat(timespec="microseconds") for k in range(n_rows)]
        got = [e.replace("Z", "").replace(" ", "T") for e in i["epochs"]]
        if [g[:26] for g in got] != exp:
            fails.append(("legs:epochs", f"start {c['t0']}, step {dt} s, legs {c['legs']}: the stored epochs are not start + k*step for k = 0..{n_rows - 1} ({len(got)} rows, last {got[-1] if got else None})"))
    elif op == "clock":
        t0 = datetime.fromisoformat(c["t0"])
        n = int(c["span"] // c["dt"])
        exp = [(t0 + timedelta(seconds=k * c["dt"])).isoformat(timespec="microseconds") for k in range(n + 1)]
        got = [r[0][:26] for r in i["rows"]]
        if got != exp:
            bad = next((k for k, (g, e) in enumerate(zip(got, exp)) if g != e), min(len(got), len(exp)))
            fails.append(("clock:epochs", f"start {c['t0']} span {c['span']} s step {c['dt']} s: the clock recorded {len(got)} epochs, expected start + k*step for k = 0..{n}; "
                          f"first difference at k={bad}: {got[bad] if bad < len(got) else None} vs {exp[bad] if bad < len(exp) else None}"))
        for k, (iso, jd, tm) in enumerate(i["ticks"], start=1):
            if iso != exp[k] or abs(tm - k * c["dt"]) > 1e-9:
                fails.append(("clock:tick", f"start {c['t0']} step {c['dt']} s: tick {k} is at {iso} / {tm} s, expected {exp[k]}"))
                break
            if iso not in got:
                fails.append(("clock:tick-not-recorded", f"start {c['t0']} span {c['span']} step {c['dt']}: the clock ticked to {iso}, which is not among the epochs it recorded"))
                break
    elif op == "run":
        D, dt = c["D"], c["dt"]
        want = D // dt
        t0 = civil_secs(datetime.fromisoformat(c["t0"]))
        if i["err"]:
            if want >= 1:
                fails.append(("run:raises", f"start {c['t0']} D={D} dt={dt}: propagateTo raised although floor(D/dt)={want}"))
        else:
            if i["steps"] != want:
                fails.append(("run:steps", f"start {c['t0']} D={D} s, step {dt} s: {i['steps']} steps, expected floor(D/step) = {want}"))
            exp = [t0 + (k + 1) * dt for k in range(i["steps"])]
            if i["epochs"] != exp:
                fails.append(("run:epochs", f"start {c['t0']} step {dt}: recorded epochs are not start + k*step"))
    return fails


def run_cases(run: Run, cs):
    impls = [guarded(impl_case, c) for c in cs]
    lines, spans = [], []
    for c, i in zip(cs, impls):
        ls = model_lines(c, i[1]) if i[0] == "ok" else []
        spans.append((len(lines), len(ls)))
        lines.extend(ls)
    outs = run.model(lines)
    for c, i, (a, n) in zip(cs, impls, spans):
        nontriv = True
        branch = c.get("src")
        if c["op"] == "instant":
            t = datetime.fromisoformat(c["t"])
            nontriv = t.second != 0 or t.microsecond != 0
            branch = branch or ("micro" if t.microsecond else ("whole-minute" if t.second == 0 else "second"))
        run.case(c["op"], c, nontriv, branch=branch)
        if outs is not None and n and i[0] == "ok":
            run.model_compared += 1
            d = compare(run, c, i[1], outs[a : a + n])
            if d:
                run.disagree(c["op"], c, d, outs[a])
        for key, what in oracle(run, c, i):
            run.fail(key, c, what)


def search(run: Run):
    sub = Run.__new__(Run)
    sub.__dict__.update(run.__dict__)
    sub.rng = __import__("random").Random(run.seed + 3)
    sub.tier = "quick"
    cs = cases(sub)
    # plus the last day of every leap year and first/last seconds of every year
    for y in range(1904, 2100, 4):
        for s in range(0, 86400, 1201):
            cs.append({"op": "instant", "t": (datetime(y, 12, 31) + timedelta(seconds=s)).isoformat()})
    for c in cs:
        f = oracle(run, c, guarded(impl_case, c))
        if f:
            return (f[0][0], c, f[0][1])
    return None


def main():
    run = Run(
        PID,
        ["RV.Props.C05", "RV.Bridge.Time", "RV.Bridge.ScenarioRun"],
        ["RV/Model/Time.lean", "RV/Num/F64.lean"],
        "Lean 4 theorems over an operation-for-operation soft-binary64 model of the time conversions (error-bound proofs, not enumeration); "
        "bit-exact differential correspondence (float.as_integer_ratio == model rational) with the real stardate/clock/propagateTo code",
        trusted_extra=[
            "the soft-float model assumes IEEE-754 binary64 round-to-nearest-even for + - * / and exact floor (CPython/numpy on x86-64); compared bit for bit on every case",
            "CPython datetime/timedelta arithmetic (modelled by the proleptic Gregorian day-number algorithm, proved inverse in C04/C05)",
            "Scenario.propagateTo is driven on a stand-in scenario whose stepForward only ticks the real ScenarioClock",
        ],
    )
    run.rule = (
        "whole-second instants 1901-03-01..2099-12-31 (uniform, calendar boundaries, leap years, stratified seconds), every 7th second (thorough: "
        "every second) of seeded whole days, microsecond instants, malformed fields; scenario offsets up to 1e7 s; timed runs with aligned and "
        "misaligned durations incl. >= 24 h; non-trivial instant = not on a whole minute; distinct by hash"
    )
    run.assumptions = ["instants outside 1901-03-01..2099-12-31 are outside the property"]
    run.lean_phase()
    if run.args.replay:
        rp = json.loads(Path(run.args.replay).read_text())
        cs = [rp["case"]] if rp.get("kind") == "failing-input" else cases(run)
    else:
        cs = cases(run)
    run_cases(run, cs)
    run.finish(search)


if __name__ == "__main__":
    main_guard(main)
