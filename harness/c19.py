"""C19 - imported ephemerides/observations are used faithfully; the importer stays read-only."""
from __future__ import annotations

import hashlib
import json
import logging
import os
import shutil
import sys
import tempfile
from datetime import datetime, timedelta
from pathlib import Path
from types import SimpleNamespace

sys.path.insert(0, str(Path(__file__).resolve().parent))
import numpy as np
from common import Run, Toks, corpus, fmt, guarded, main_guard

PID = "C19"
START = datetime(2021, 3, 30, 16, 0, 0)


def jd_at(c, k):
    """the Julian date of step k as the database holds it: converted from the civil time stamp ("datetime"), or as a running scenario writes it -
    the clock's start date plus the elapsed seconds ("clock"); the two differ in the last bit at about a third of the minutes of this start"""
    from resonaate.physics.time.stardate import ScenarioTime, datetimeToJulianDate

    if c.get("jd_style") == "clock":
        return float(ScenarioTime(60.0 * k).convertToJulianDate(datetimeToJulianDate(START)))
    return float(datetimeToJulianDate(START + timedelta(seconds=60 * k)))
NULL = logging.getLogger("verif-null")


def cases(run: Run):
    rng = run.rng
    out = list(corpus(PID))
    for _ in range(run.n(60, 600)):
        universe = list(range(1, rng.randint(3, 9)))
        steps = rng.randint(1, 5)
        imported = sorted(rng.sample(universe, rng.randint(1, len(universe))))
        db_agents = sorted(set(rng.sample(universe, rng.randint(1, len(universe))) + rng.sample([50, 51, 52, 53], rng.randint(0, 3))))
        kind = rng.choice(["superset", "exact", "subset", "gap", "extra-hides-missing", "generic"])
        rows = {}
        for k in range(1, steps + 1):
            if kind == "superset":
                present = sorted(set(imported) | set(db_agents))
            elif kind == "exact":
                present = list(imported)
            elif kind == "subset":
                present = sorted(rng.sample(imported, max(0, len(imported) - 1)))
            elif kind == "gap":
                present = list(imported) if k != rng.randint(1, steps) else sorted(rng.sample(imported, max(0, len(imported) - 1)))
            elif kind == "extra-hides-missing":
                drop = rng.choice(imported)
                present = sorted((set(imported) - {drop}) | {50, 51})
            else:
                present = sorted(a for a in set(imported) | set(db_agents) if rng.random() < 0.8)
            rows[k] = present
        out.append({"op": "ephem", "jd_style": rng.choice(["datetime", "clock", "clock"]), "imported": imported, "rows": rows, "steps": steps, "kind": kind})
    for _ in range(run.n(24, 200)):
        tg = [10001, 10002][: rng.randint(1, 2)]
        sn = [60001, 60002][: rng.randint(1, 2)]
        rt = {a: rng.random() < 0.5 for a in tg + sn}
        if rng.random() < 0.5:  # the mixes the suite never uses: all targets one way, all sensors the other
            flip = rng.random() < 0.5
            rt = {a: (flip if a in tg else not flip) for a in tg + sn}
        steps = rng.randint(2, 4)
        imported = [a for a in tg + sn if not rt[a]]
        gap = None
        if imported and rng.random() < 0.5:
            gap = [rng.choice(imported), rng.randint(1, steps)]
        out.append({"op": "mixed", "jd_style": rng.choice(["datetime", "clock", "clock"]), "targets": tg, "sensors": sn, "realtime": {str(a): rt[a] for a in rt}, "steps": steps, "gap": gap})
    for _ in range(run.n(40, 400)):
        n = rng.randint(0, 8)
        obs = []
        for i in range(n):
            dup = obs and rng.random() < 0.3
            if dup:
                src = rng.choice(obs)
                pos = list(src["pos"])
                if rng.random() < 0.5:
                    pos[0] += rng.choice([1e-8, 4e-7])  # below the 1e-6 km resolution of the key
                tgt = src["tgt"] if rng.random() < 0.7 else src["tgt"] + 1
            else:
                pos = [round(rng.uniform(-7000, 7000), 3) for _ in range(3)]
                tgt = rng.choice([10001, 10002, 10003])
            obs.append({"id": i + 1, "pos": pos, "tgt": tgt, "sensor": rng.choice([60001, 60002]), "epoch": rng.choice([1, 1, 2])})
        if len(out) % 7 == 0:
            out.append({"op": "flags", "target_realtime": rng.random() < 0.5, "sensor_realtime": rng.random() < 0.5})
        out.append({"op": "obs", "jd_style": rng.choice(["datetime", "clock", "clock"]), "load_epoch": rng.choice([1, 2, 2]), "obs": obs})
    return out


# ----------------------------------------------------------------------------- real importer database files
def sha(path):
    return hashlib.sha256(Path(path).read_bytes()).hexdigest()


def state_of(agent, k):
    return [float(agent), float(k), 1.0, 0.5, 0.25, float(agent * 1000 + k)]


def build_ephem_db(path, c):
    from resonaate.data.agent import AgentModel
    from resonaate.data.ephemeris import TruthEphemeris
    from resonaate.data.epoch import Epoch
    from resonaate.data.importer_database import ImporterDatabase
    from resonaate.physics.time.stardate import datetimeToJulianDate

    db = ImporterDatabase(f"sqlite:///{path}", logger=NULL)
    agents = sorted({a for rs in c["rows"].values() for a in rs} | set(c["imported"]))
    objs = [AgentModel(unique_id=a, name=f"a{a}") for a in agents]
    for k in range(0, c["steps"] + 1):
        t = START + timedelta(seconds=60 * k)
        objs.append(Epoch(julian_date=jd_at(c, k), timestampISO=t.isoformat(timespec="microseconds")))
    for k, present in c["rows"].items():
        t = START + timedelta(seconds=60 * int(k))
        for a in present:
            objs.append(TruthEphemeris.fromECIVector(julian_date=jd_at(c, int(k)), agent_id=a, eci=state_of(a, int(k))))
    db._insertData(*objs)
    db.resetData(()) if False else None
    return db


def impl_ephem(c, tmp):
    from resonaate.agents.target_agent import TargetAgent
    from resonaate.common.exceptions import MissingEphemerisError
    from resonaate.dynamics.importer import EphemerisImporter
    from resonaate.physics.time.stardate import datetimeToJulianDate

    path = os.path.join(tmp, "imp.sqlite3")
    if os.path.exists(path):
        os.remove(path)
    db = build_ephem_db(path, c)
    del db
    before = sha(path)
    imp = EphemerisImporter(f"sqlite:///{path}")
    jd0 = datetimeToJulianDate(START)
    agents = {}
    for a in c["imported"]:
        st = SimpleNamespace(simulation_id=a, realtime=False, julian_date_start=jd0, eci_state=np.array(state_of(a, 0)), _time=0.0)
        st.importState = (lambda eph, st=st: TargetAgent.importState(st, eph))
        agents[a] = st
    trace = []
    write_errs = {}
    for k in range(1, c["steps"] + 1):
        for a in c["imported"]:
            imp.registerAgent(agents[a])
        t = START + timedelta(seconds=60 * k)
        try:
            imp.importEphemerides(t)
            res = "ok"
        except MissingEphemerisError:
            res = "missing"
        trace.append({"k": k, "res": res, "regs": sorted(imp._registrants.keys()),
                      "states": {a: [float(x) for x in agents[a].eci_state] for a in c["imported"]}, "times": {a: float(agents[a]._time) for a in c["imported"]}})
        if res == "missing":
            break
    for name, call in (("insertData", lambda: imp._importer_db.insertData(object())), ("deleteData", lambda: imp._importer_db.deleteData(None)), ("bulkSave", lambda: imp._importer_db.bulkSave([]))):
        try:
            call()
            write_errs[name] = "no-error"
        except NotImplementedError:
            write_errs[name] = "rejected"
        except Exception as e:  # noqa: BLE001
            write_errs[name] = type(e).__name__
    del imp
    return {"trace": trace, "unchanged": sha(path) == before, "writes": write_errs}


def impl_obs(c, tmp):
    from resonaate.data.agent import AgentModel
    from resonaate.data.epoch import Epoch
    from resonaate.data.importer_database import ImporterDatabase
    from resonaate.data.observation import Observation
    from resonaate.physics.measurements import Measurement
    from resonaate.physics.time.stardate import datetimeToJulianDate
    from resonaate.tasking.engine.centralized_engine import CentralizedTaskingEngine

    path = os.path.join(tmp, "obs.sqlite3")
    if os.path.exists(path):
        os.remove(path)
    db = ImporterDatabase(f"sqlite:///{path}", logger=NULL)
    objs = [AgentModel(unique_id=a, name=f"a{a}") for a in sorted({o["tgt"] for o in c["obs"]} | {60001, 60002})]
    ep = {}
    for k in (1, 2):
        t = START + timedelta(seconds=60 * k)
        ep[k] = jd_at(c, k)
        objs.append(Epoch(julian_date=ep[k], timestampISO=t.isoformat(timespec="microseconds")))
    meas = Measurement.fromMeasurementLabels(["azimuth_rad", "elevation_rad"], np.diag([1e-8, 1e-8]))
    for o in c["obs"]:
        ob = Observation(julian_date=ep[o["epoch"]], target_id=o["tgt"], sensor_id=o["sensor"], sensor_type="optical",
                         sensor_eci=np.array(o["pos"] + [0.0, 7.0, float(o["id"])]), measurement=meas, azimuth_rad=0.1 * o["id"], elevation_rad=0.5)
        objs.append(ob)
    db._insertData(*objs)
    del db
    before = sha(path)
    idb = ImporterDatabase(f"sqlite:///{path}", logger=NULL)
    # real sensing agents (built without their heavy constructor) holding real sensors, in a stand-in object store
    import resonaate.tasking.engine.centralized_engine as ce
    from resonaate.agents.sensing_agent import SensingAgent
    from resonaate.sensors.field_of_view import ConicFoV
    from resonaate.sensors.optical import Optical

    store = {}
    for sid in (60001, 60002):
        sa = SensingAgent.__new__(SensingAgent)
        sa._sensors = Optical(az_mask=np.array([0.0, 360.0]), el_mask=np.array([0.0, 90.0]), r_matrix=np.array([1e-8, 1e-8]), diameter=1.0,
                              efficiency=0.9, slew_rate=3.0, field_of_view=ConicFoV(0.2), background_observations=False,
                              detectable_vismag=25.0, minimum_range=None, maximum_range=None)
        store[sid] = sa
    # one engine of several: its own sensors and targets are only part of what the database holds for the epoch - every stored observation is loaded all the same
    stub = SimpleNamespace(_importer_db=idb, logger=NULL, _sensor_store=store, sensor_list=[60001], target_list=[10001], unique_id=2)
    stub._attachObsMetadata = lambda ob: CentralizedTaskingEngine._attachObsMetadata(stub, ob)
    old_ray = ce.ray
    ce.ray = SimpleNamespace(get=lambda ref: ref)
    try:
        got = CentralizedTaskingEngine.loadImportedObservations(stub, START + timedelta(seconds=60 * c.get("load_epoch", 1)))
    finally:
        ce.ray = old_ray
    # the same database through the engine's own step (`assess` with tasking switched off: imported observations only), epoch after epoch:
    # at every epoch the engine holds the observations stored for that epoch, nothing left over from the epochs before
    from resonaate.tasking.engine.engine_base import TaskingEngine

    eng = SimpleNamespace(_importer_db=idb, logger=NULL, _sensor_store=store, _realtime_obs=False, _observations=[], _missed_observations=[], _saved_observations=[],
                          _saved_missed_observations=[], sensor_changes={}, num_targets=1, num_sensors=2, num_metrics=1, sensor_list=[60001, 60002], target_list=[10001],
                          visibility_matrix=None, decision_matrix=None, reward_matrix=None, metric_matrix=None, unique_id=1)
    eng._attachObsMetadata = lambda ob: CentralizedTaskingEngine._attachObsMetadata(eng, ob)
    eng.loadImportedObservations = lambda when: CentralizedTaskingEngine.loadImportedObservations(eng, when)
    eng.saveObservations = lambda obs: TaskingEngine.saveObservations(eng, obs)
    held = []
    ce.ray = SimpleNamespace(get=lambda ref: ref)
    try:
        for k in (1, 2, 3):
            CentralizedTaskingEngine.assess(eng, START + timedelta(seconds=60 * (k - 1)), START + timedelta(seconds=60 * k))
            held.append(sorted(int(round(ob.vel_z_km_p_sec)) for ob in eng._observations))
    finally:
        ce.ray = old_ray
    for ob in got:
        if ob.measurement is not store[ob.sensor_id].sensors.measurement:
            raise ValueError("imported observation carries another sensor's measurement metadata")
    ids = [int(round(ob.vel_z_km_p_sec)) for ob in got]
    tgts = [int(ob.target_id) for ob in got]
    del idb
    return {"ids": ids, "targets": tgts, "unchanged": sha(path) == before, "held": held}


def impl_flags(c, tmp):
    """which agents are imported and which propagate themselves is configured per kind of agent: the real factories must build each kind with its own flag"""
    import resonaate.scenario.clock as clk
    import scen
    from resonaate.agents.sensing_agent import SensingAgent
    from resonaate.agents.target_agent import TargetAgent
    from resonaate.dynamics import dynamicsFactory
    from resonaate.dynamics.two_body import TwoBody
    from resonaate.scenario.config.agent_config import AgentConfig, SensingAgentConfig
    from resonaate.scenario.config.geopotential_config import GeopotentialConfig
    from resonaate.scenario.config.perturbations_config import PerturbationsConfig
    from resonaate.scenario.config.propagation_config import PropagationConfig

    class _Null:
        def insertData(self, *a, **k):
            return None

    old = clk.getDBConnection
    clk.getDBConnection = lambda: _Null()
    try:
        clock = clk.ScenarioClock(START, 600.0, 60.0)
    finally:
        clk.getDBConnection = old
    prop = PropagationConfig(target_realtime_propagation=c["target_realtime"], sensor_realtime_propagation=c["sensor_realtime"])
    tcfg = AgentConfig(**scen.target_cfg(10001, [7000.0, 0.0, 0.0], [0.0, 7.0, 2.8]))
    scfg = SensingAgentConfig(**scen.radar_cfg(60001, 10.0, 20.0))
    tgt = TargetAgent.fromConfig(tcfg, clock, TwoBody(), prop)
    sen = SensingAgent.fromConfig(scfg, clock, dynamicsFactory(scfg, prop, GeopotentialConfig(), PerturbationsConfig(), clock), prop)
    return {"target": bool(tgt.realtime), "sensor": bool(sen.realtime)}


def impl_mixed(c, tmp):
    """the real Scenario.stepForward with a mix of realtime and imported agents and the real EphemerisImporter"""
    import resonaate.scenario.clock as clk
    import resonaate.scenario.scenario as scn
    from resonaate.agents.target_agent import TargetAgent
    from resonaate.common.exceptions import MissingEphemerisError
    from resonaate.data.resonaate_database import ResonaateDatabase
    from resonaate.dynamics.importer import EphemerisImporter
    from resonaate.physics.time.stardate import datetimeToJulianDate

    path = os.path.join(tmp, "mixed.sqlite3")
    if os.path.exists(path):
        os.remove(path)
    agents = c["targets"] + c["sensors"]
    rows = {k: [a for a in agents + [777] if not (c["gap"] and c["gap"] == [a, k])] for k in range(1, c["steps"] + 1)}
    build_ephem_db(path, {"rows": rows, "imported": agents, "steps": c["steps"]})
    before = sha(path)
    imp = EphemerisImporter(f"sqlite:///{path}")
    jd0 = datetimeToJulianDate(START)

    class _Null:
        def insertData(self, *a, **k):
            return None

    old = clk.getDBConnection
    clk.getDBConnection = lambda: _Null()
    try:
        clock = clk.ScenarioClock(START, 60.0 * c["steps"], 60.0)
    finally:
        clk.getDBConnection = old

    def mk(a):
        st = SimpleNamespace(simulation_id=a, realtime=c["realtime"][str(a)], julian_date_start=jd0, eci_state=np.array(state_of(a, 0)), _time=0.0)
        st.importState = (lambda eph, st=st: TargetAgent.importState(st, eph))
        return st

    tg = {a: mk(a) for a in c["targets"]}
    sn = {a: mk(a) for a in c["sensors"]}
    propagated = []
    stub = SimpleNamespace(
        clock=clock, database=ResonaateDatabase(db_path="sqlite://", logger=NULL), logger=NULL, target_agents=tg, sensor_agents=sn, estimate_agents={},
        _agent_propagator=SimpleNamespace(enqueueJob=lambda job: propagated.append(job._registrant.simulation_id), join=lambda: None),
        _ephem_importer=imp, _unsaved_epochs={}, scenario_config=SimpleNamespace(propagation=SimpleNamespace(truth_simulation_only=True)),
        current_julian_date=clock.julian_date_start,
    )
    trace = []
    for k in range(1, c["steps"] + 1):
        propagated.clear()
        try:
            scn.Scenario.stepForward(stub)
            res = "ok"
        except MissingEphemerisError:
            res = "missing"
        trace.append({"k": k, "res": res, "propagated": sorted(propagated), "states": {a: [float(x) for x in ag.eci_state] for a, ag in {**tg, **sn}.items()}})
        if res == "missing":
            break
    del imp
    return {"trace": trace, "unchanged": sha(path) == before}


def model_lines(c):
    if c["op"] == "ephem":
        lines = []
        regs = c["imported"]
        for k in range(1, c["steps"] + 1):
            rows = c["rows"][k] if k in c["rows"] else c["rows"][str(k)]
            # states: record id = agent*1000 + k of the row last imported (0 = initial)
            lines.append(("STEP", k, rows))
        return lines
    key = lambda o: (int(o["pos"][0] * 1000000), int(o["pos"][1] * 1000000), int(o["pos"][2] * 1000000), o["tgt"])
    obs = [o for o in c["obs"] if o["epoch"] == c.get("load_epoch", 1)]
    return ["imp.dedup " + f"{len(obs)} " + " ".join(f"{o['id']} {key(o)[0]} {key(o)[1]} {key(o)[2]} {key(o)[3]}" for o in obs)]


def run_cases(run: Run, cs):
    tmp = tempfile.mkdtemp(prefix="verif-c19-")
    try:
        impls = [guarded({"ephem": impl_ephem, "obs": impl_obs, "mixed": impl_mixed, "flags": impl_flags}[c["op"]], c, tmp) for c in cs]
    finally:
        shutil.rmtree(tmp, ignore_errors=True)
    # model lines: ephemeris cases need the model state threaded through the steps; one driver pass per step depth
    lines, index = [], []
    for ci, (c, i) in enumerate(zip(cs, impls)):
        if c["op"] == "flags":
            continue
        if c["op"] == "obs":
            index.append((ci, None, len(lines)))
            lines.extend(model_lines(c))
        elif c["op"] == "mixed":
            # the model sees one import step per scenario step: the registrants are exactly the non-realtime agents
            agents = c["targets"] + c["sensors"]
            regs = [a for a in agents if not c["realtime"][str(a)]]
            for k in range(1, c["steps"] + 1):
                rows = [a for a in agents + [777] if not (c["gap"] and c["gap"] == [a, k])]
                states = [] if k == 1 else [(a, a * 1000 + (k - 1)) for a in regs]
                index.append((ci, k, len(lines)))
                lines.append(f"imp.step idSets {len(regs)} " + " ".join(map(str, regs)) + f" {len(states)} " + " ".join(f"{a} {r}" for a, r in states)
                             + f" {len(rows)} " + " ".join(f"{a} {a * 1000 + k}" for a in rows))
        else:
            # the model's state before step k is fully determined by the steps before it (all ok): every imported agent's
            # record id is agent*1000 + (k-1) (or 0 initially) and, with the repaired importer, nobody stays registered
            for k in range(1, c["steps"] + 1):
                rows = c["rows"].get(k, c["rows"].get(str(k)))
                states = [] if k == 1 else [(a, a * 1000 + (k - 1)) for a in c["imported"]]
                regs = c["imported"]
                line = (f"imp.step idSets {len(regs)} " + " ".join(map(str, regs)) + f" {len(states)} " + " ".join(f"{a} {r}" for a, r in states)
                        + f" {len(rows)} " + " ".join(f"{a} {a * 1000 + k}" for a in rows))
                index.append((ci, k, len(lines)))
                lines.append(line)
    outs = run.model(lines)
    by_case = {}
    for ci, k, li in index:
        by_case.setdefault(ci, []).append((k, outs[li] if outs is not None else None))
    for ci, (c, i) in enumerate(zip(cs, impls)):
        run.case(c["op"], c, nontrivial=True, branch=c.get("kind"))
        fails = []
        if i[0] != "ok":
            run.fail(f"{c['op']}:raises", c, f"{i[1]}")
            continue
        r = i[1]
        if c["op"] == "flags":
            if r["target"] != c["target_realtime"] or r["sensor"] != c["sensor_realtime"]:
                run.fail("flags", c, f"configured target_realtime_propagation={c['target_realtime']}, sensor_realtime_propagation={c['sensor_realtime']}: the factories built a target with "
                                     f"realtime={r['target']} and a sensor with realtime={r['sensor']} (an agent that is not realtime takes its states from the importer)")
            continue
        if c["op"] == "mixed":
            agents = c["targets"] + c["sensors"]
            regs = [a for a in agents if not c["realtime"][str(a)]]
            run.count("mixed:" + ("targets-rt/sensors-imported" if all(c["realtime"][str(a)] for a in c["targets"]) and not any(c["realtime"][str(a)] for a in c["sensors"])
                                  else "targets-imported/sensors-rt" if not any(c["realtime"][str(a)] for a in c["targets"]) and all(c["realtime"][str(a)] for a in c["sensors"]) else "other"))
            for st in r["trace"]:
                k = st["k"]
                gap_now = bool(c["gap"]) and c["gap"][1] == k
                mo = dict(by_case[ci]).get(k) if outs is not None else None
                if mo is not None:
                    run.model_compared += 1
                    if mo.startswith("missing") != (st["res"] == "missing"):
                        run.disagree("mixed", c, f"step {k}: {st['res']}", mo)
                if gap_now:
                    if st["res"] != "missing":
                        fails.append(("mixed:stale", f"step {k}: imported agent {c['gap'][0]} has no record but the run continued (realtime flags {c['realtime']})"))
                    break
                if st["res"] != "ok":
                    fails.append(("mixed:false-missing", f"step {k}: importer raised although every imported agent has a record"))
                    break
                want_prop = sorted(a for a in agents if c["realtime"][str(a)])
                if st["propagated"] != want_prop:
                    fails.append(("mixed:propagated", f"step {k}: agents {st['propagated']} were propagated, the realtime ones are {want_prop}"))
                for a in regs:
                    if st["states"][a] != state_of(a, k):
                        fails.append(("mixed:state", f"step {k}: imported agent {a} (realtime flags {c['realtime']}) has state {st['states'][a]}, its record is {state_of(a, k)}"))
                        break
            if not r["unchanged"]:
                fails.append(("readonly", "the importer database file changed"))
        elif c["op"] == "obs":
            if outs is not None:
                run.model_compared += 1
                want = [int(x) for x in Toks(by_case[ci][0][1]).list()]
                if want != r["ids"]:
                    run.disagree("obs", c, r["ids"], want)
            # oracle: every stored (position, target) key of the epoch is represented exactly once, nothing from other epochs
            key = lambda o: (int(o["pos"][0] * 1000000), int(o["pos"][1] * 1000000), int(o["pos"][2] * 1000000), o["tgt"])
            stored = [o for o in c["obs"] if o["epoch"] == c.get("load_epoch", 1)]
            byid = {o["id"]: o for o in c["obs"]}
            keys_out = [key(byid[x]) for x in r["ids"] if x in byid]
            if any(x not in byid or byid[x]["epoch"] != c.get("load_epoch", 1) for x in r["ids"]):
                fails.append(("obs:foreign", f"observations {r['ids']} include one not stored for the epoch"))
            if sorted(set(keys_out)) != sorted(set(key(o) for o in stored)) or len(keys_out) != len(set(keys_out)):
                fails.append(("obs:lost-or-duplicated", f"stored {[(o['id'], o['tgt']) for o in stored]} -> loaded ids {r['ids']}"))
            for k, ids_k in enumerate(r.get("held", []), start=1):
                want_keys = sorted(set(key(o) for o in c["obs"] if o["epoch"] == k))
                got_keys = sorted(key(byid[x]) for x in ids_k if x in byid)
                if got_keys != want_keys or any(x not in byid for x in ids_k):
                    fails.append(("obs:held", f"at epoch {k} the engine (imported observations only) holds observations {ids_k}; stored for that epoch: "
                                              f"{[(o['id'], o['tgt']) for o in c['obs'] if o['epoch'] == k]}"))
                    break
            if any(byid[x]["tgt"] != t for x, t in zip(r["ids"], r["targets"]) if x in byid):
                fails.append(("obs:wrong-target", "an observation reached a different target"))
            if not r["unchanged"]:
                fails.append(("readonly", "the importer database file changed"))
        else:
            ended = False
            for st in r["trace"]:
                k = st["k"]
                rows = c["rows"].get(k, c["rows"].get(str(k)))
                missing = sorted(set(c["imported"]) - set(rows))
                mo = dict(by_case[ci]).get(k) if outs is not None else None
                if mo is not None:
                    run.model_compared += 1
                    if mo.startswith("missing"):
                        if st["res"] != "missing":
                            run.disagree("ephem", c, f"step {k}: {st['res']}", mo)
                    else:
                        t = Toks(mo[3:])
                        mregs = [int(x) for x in t.list()]
                        n = t.int()
                        mstates = {}
                        for _ in range(n):
                            a = t.int()
                            mstates[a] = t.int()
                        got_states = {a: int(st["states"][a][5]) for a in c["imported"]}
                        want_states = {a: mstates.get(a, 0) for a in c["imported"]}
                        if st["res"] != "ok" or mregs != st["regs"] or {a: (v if v % 1000 else 0) for a, v in got_states.items()} != want_states:
                            run.disagree("ephem", c, f"step {k}: {st['res']} regs {st['regs']} states {got_states}", mo)
                # the property on the real importer
                if missing:
                    run.count("missing-case")
                    if st["res"] != "missing":
                        fails.append(("ephem:stale", f"step {k}: registered agents {missing} have no record (database holds {rows}) but the run continued"))
                else:
                    if st["res"] != "ok":
                        fails.append(("ephem:false-missing", f"step {k}: every registered agent has a record but the importer raised"))
                    else:
                        for a in c["imported"]:
                            if st["states"][a] != state_of(a, k):
                                fails.append(("ephem:state", f"step {k}: agent {a} has state {st['states'][a]}, its record is {state_of(a, k)}"))
                                break
                            if abs(st["times"][a] - 60.0 * k) > 1e-3:
                                fails.append(("ephem:time", f"step {k}: agent {a} time {st['times'][a]}"))
                                break
                        if st["regs"]:
                            fails.append(("ephem:still-registered", f"step {k}: agents {st['regs']} stay registered after a successful import"))
            if not r["unchanged"]:
                fails.append(("readonly", "the importer database file changed"))
            for name, v in r["writes"].items():
                if v != "rejected":
                    fails.append(("readonly:write", f"ImporterDatabase.{name} did not raise NotImplementedError ({v})"))
        for key_, what in fails:
            run.fail(key_, c, what)


def search(run: Run):
    sub = Run.__new__(Run)
    sub.__dict__.update(run.__dict__)
    sub.rng = __import__("random").Random(run.seed + 29)
    sub.tier = "thorough"
    sub.oracle_failures = []
    sub.disagreements = []
    run_cases(sub, cases(sub)[:500])
    if sub.oracle_failures:
        k, c, w = sub.oracle_failures[0]
        return (k, c, w)
    return None


def main():
    run = Run(
        PID,
        ["RV.Props.C19"],
        ["RV/Model/Importer.lean"],
        "Lean 4 theorems over a model of the registrant map and import loop (invariant by induction over the rows), of the observation "
        "de-duplication and of the read-only surface; differential correspondence with the real EphemerisImporter / loadImportedObservations "
        "on real SQLite importer files built per case, with file hashes before and after",
        trusted_extra=["SQLAlchemy/SQLite return the rows stored for the queried epoch", "agents are stand-ins whose importState is the real TargetAgent.importState"],
    )
    run.rule = ("importer files that are supersets / exact / subsets of the registered agents, gaps at one epoch, unrelated agents hiding a missing one, "
                "1-5 steps; observation sets with duplicated positions (identical or below the 1e-6 km key resolution), other targets and other epochs")
    run.assumptions = ["'reach the filter' is checked at the engine's load step (the list handed to saveObservations); the rest of the path is covered by C09/C10"]
    run.lean_phase()
    if run.args.replay:
        rp = json.loads(Path(run.args.replay).read_text())
        cs = [rp["case"]] if rp.get("kind") == "failing-input" else cases(run)
    else:
        cs = cases(run)
    run_cases(run, cs)
    run.finish(search)


if __name__ == "__main__":
    main_guard(main)
