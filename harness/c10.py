"""C10 - truth trajectories depend only on dynamics and initial states."""
from __future__ import annotations

import hashlib
import json
import random
import sqlite3
import sys
from datetime import datetime, timedelta
from pathlib import Path

sys.path.insert(0, str(Path(__file__).resolve().parent))
import numpy as np
import scen
from common import Run, corpus, guarded, main_guard

PID = "C10"
SITES = [(0.0, 0.0), (5.0, 10.0), (-5.0, -8.0)]
TGT_SPOTS = [(1.0, 2.0), (4.0, 8.0), (-4.0, -6.0), (2.0, -3.0)]


def cases(run: Run):
    rng = run.rng
    out = list(corpus(PID))
    for _ in range(run.n(3, 20)):
        steps = rng.randint(3, 7)
        out.append({
            "imp_k": rng.randint(1, steps - 1), "split_at_impulse": rng.random() < 0.6,
            # the impulse at a step boundary, or part of a step later - in a third of the cases inside the very first step of the run
            "imp_frac": rng.choice([0.0, 0.0, 0.5, 0.25]), "imp_first_step": rng.random() < 0.34,
            "add_at": [3, 4] if steps >= 5 else [1, 2],
            "dt": rng.choice([60, 60, 30]), "steps": steps, "ns": rng.randint(1, 2), "nt": rng.randint(2, 3), "prop": rng.choice(["two_body", "special_perturbations"]),
            "start_sec": rng.choice([0, 17]), "seed": rng.randint(1, 10**6), "impulse": rng.random() < 0.6,
            # the variants that found something in the past are always there; the others are sampled
            "variants": ["filter_model", "drop_first", "drop_maneuvering"] + rng.sample(["truth_only", "greedy", "noise_seed", "out2", "split", "order", "extra_target", "extra_sensor", "fewer_targets", "random_decision",
                                                                      "no_additions", "reorder", "id_reused", "id_reused"], run.n(5, 8)),
            "additions": rng.choice([2, 2, 0, 1]),
            # radiation pressure on, and every target with its own mass and area: a satellite's truth must not depend on which other satellites exist
            "srp": rng.random() < 0.6, "fresh": rng.choice(["drop_first", "drop_first", "reorder", "base"]),
        })
    # pinned shape: the manoeuvre falls inside the first step the agents live through, and the run is repeated without the manoeuvring target
    gen = [c for c in out if "imp_k" in c and "imp_frac" in c]
    if gen:
        gen[0].update(impulse=True, imp_first_step=True)
    return out


def build(c, v):
    from resonaate.physics.transforms.methods import ecef2eci, lla2ecef

    start = datetime(2021, 3, 30, 16, 0, 0) + timedelta(seconds=c["start_sec"])
    ns, nt = c["ns"], c["nt"]
    if v == "extra_sensor":
        ns += 1
    tids = list(range(nt))
    if v == "extra_target":
        tids = tids + [3]
    if v == "fewer_targets":
        tids = tids[:-1]
    if v == "drop_first":
        tids = tids[1:]
    if v == "drop_maneuvering":
        tids = [k for k in tids if k != 1]  # the others fly as if it had never been there - also when it manoeuvres in its very first step
    if v == "reorder":
        tids = tids[::-1]
    sensors = [scen.radar_cfg(60001 + k, *SITES[k]) for k in range(ns)]
    targets = []
    for k in tids:
        lat, lon = TGT_SPOTS[k]
        ecef = lla2ecef(np.array([np.radians(lat), np.radians(lon), 700.0 + 50 * k]))
        eci = ecef2eci(ecef, datetime(2021, 3, 30, 16, 1, 30))
        r = eci[:3]
        vv = np.cross([0, 0, 1.0], r)
        vv = vv / np.linalg.norm(vv) * np.sqrt(398600.4418 / np.linalg.norm(r))
        tc = scen.target_cfg(10001 + k, r, vv)
        tc["platform"].update(mass=[2000.0, 100.0, 650.0, 40.0][k], visual_cross_section=[2.0, 40.0, 9.0, 12.0][k])
        targets.append(tc)
    decision = {"greedy": "MyopicNaiveGreedyDecision", "random_decision": "RandomDecision"}.get(v, "MunkresDecision")
    eng = [scen.engine_cfg(1, targets, sensors, decision=decision, seed=5)]
    events = []
    if c["impulse"] and 1 in tids:  # the manoeuvring target is the second one; a variant that leaves it out has no such event
        when = c["dt"] * ((0.5 if c.get("imp_first_step") else c.get("imp_k", 2)) + (0.0 if c.get("imp_first_step") else c.get("imp_frac", 0.0)))
        events.append({"scope": "agent_propagation", "scope_instance_id": 10002, "start_time": scen.iso(start + timedelta(seconds=when)),
                       "end_time": scen.iso(start + timedelta(seconds=when)), "event_type": "impulse", "thrust_vector": [0.0, 0.01, 0.0], "thrust_frame": "ntw", "planned": False})
    # targets that join at run time (scenario-step events): their truth must not depend on estimation settings either
    add_at = c.get("add_at", [1, 2])
    if v == "id_reused" and c.get("additions", 0) >= 1 and add_at[0] >= 3:
        # an agent with the id of the first late joiner flew earlier and left (another orbit, another platform): the late joiner is a new agent
        ecef = lla2ecef(np.array([np.radians(-6.0), np.radians(9.0), 1200.0]))
        eci = ecef2eci(ecef, datetime(2021, 3, 30, 16, 1, 30))
        r = eci[:3]
        vv = np.cross([0, 0, 1.0], r)
        vv = vv / np.linalg.norm(vv) * np.sqrt(398600.4418 / np.linalg.norm(r))
        pred = scen.target_cfg(10101, r, vv)
        pred["platform"].update(mass=90.0, visual_cross_section=35.0)
        eng[0]["targets"].append(pred)
        gone = scen.iso(start + timedelta(seconds=c["dt"] * 2))  # it is propagated through the first step and leaves in the second
        events.append({"scope": "scenario_step", "scope_instance_id": 0, "start_time": gone, "end_time": gone, "event_type": "agent_removal",
                       "tasking_engine_id": 1, "agent_id": 10101, "agent_type": "target"})
    for j in range(c.get("additions", 0) if v != "no_additions" else 0):
        lat, lon = [(3.0, -1.0), (-2.0, 5.0)][j]
        ecef = lla2ecef(np.array([np.radians(lat), np.radians(lon), 900.0 + 40 * j]))
        eci = ecef2eci(ecef, datetime(2021, 3, 30, 16, 1, 30))
        r = eci[:3]
        vv = np.cross([0, 0, 1.0], r)
        vv = vv / np.linalg.norm(vv) * np.sqrt(398600.4418 / np.linalg.norm(r))
        when = scen.iso(start + timedelta(seconds=c["dt"] * add_at[j]))
        events.append({"scope": "scenario_step", "scope_instance_id": 0, "start_time": when, "end_time": when, "event_type": "target_addition",
                       "tasking_engine_id": 1, "target_agent": scen.target_cfg(10101 + j, r, vv)})
    cfg = scen.scenario_cfg(start, c["dt"], c["dt"] * (c["steps"] + 1), eng, out_step=(2 * c["dt"] if v == "out2" else c["dt"]), truth_only=(v == "truth_only"),
                            seed=(c["seed"] + 1 if v == "noise_seed" else c["seed"]), events=events, prop=c["prop"])
    if c.get("srp") and c["prop"] == "special_perturbations":
        cfg["perturbations"]["solar_radiation_pressure"] = True
    if v == "filter_model":
        other = "special_perturbations" if c["prop"] == "two_body" else "two_body"
        cfg["estimation"]["sequential_filter"]["dynamics_model"] = other
    return scen.build(cfg), start


def digest(x):
    return hashlib.sha1(np.ascontiguousarray(np.asarray(x, dtype=float)).tobytes()).hexdigest()[:16]


def run_variant(c, v):
    from resonaate.physics.time.stardate import JulianDate, ScenarioTime

    app, start = build(c, v)
    jd0 = app.clock.julian_date_start
    traj = []

    def snap():
        traj.append({aid: digest(a.eci_state) for aid, a in sorted({**app.target_agents, **app.sensor_agents}.items())})

    snap()
    if v == "order":
        rng = random.Random(c["seed"])
        ctx = scen.completion_order(lambda n, b: rng.randrange(n))
    else:
        import contextlib

        ctx = contextlib.nullcontext()
    with ctx:
        if v == "split":
            # consecutive propagateTo calls of uneven length instead of single steps
            k = 0
            # ... one of the calls ends exactly at the instant of the impulse, when there is one
            ik = c.get("imp_k", 2)
            for chunk in ((ik, c["steps"]) if (c.get("impulse") and c.get("split_at_impulse") and not c.get("imp_first_step") and not c.get("imp_frac")) else (1, 2, c["steps"])):
                k = min(c["steps"], k + chunk)
                before = int(round(float(app.clock.time) / c["dt"]))
                app.propagateTo(JulianDate(ScenarioTime(float(k * c["dt"])).convertToJulianDate(jd0)))
                # only the end of each call is observable here: fill the skipped steps with markers
                for _ in range(before, k - 1):
                    traj.append(None)
                snap()
                if k >= c["steps"]:
                    break
        else:
            for _ in range(c["steps"]):
                app.stepForward()
                snap()
    # stored truth rows
    app.saveDatabaseOutput() if False else None
    con = sqlite3.connect(app._verif_db_path)
    rows = con.execute("select agent_id, julian_date, pos_x_km, pos_y_km, pos_z_km, vel_x_km_p_sec, vel_y_km_p_sec, vel_z_km_p_sec from truth_ephemerides order by agent_id, julian_date").fetchall()
    con.close()
    stored = {}
    for r in rows:
        stored.setdefault(r[0], {})[r[1]] = digest(r[2:])
    return {"traj": traj, "stored": stored}


def run_variant_fresh(c, v):
    """the same run in a fresh interpreter: whatever the process has cached from earlier scenarios (module-level memos) is not there"""
    import os
    import subprocess

    p = subprocess.run([sys.executable, "-u", str(Path(__file__).resolve()), "--worker", json.dumps({"c": c, "v": v})], capture_output=True, text=True,
                       timeout=1200, env=dict(os.environ))
    for line in p.stdout.splitlines():
        if line.startswith("WORKER-RESULT "):
            r = json.loads(line[len("WORKER-RESULT "):])
            r["stored"] = {int(a): {float(jd): dg for jd, dg in per.items()} for a, per in r["stored"].items()}
            r["traj"] = [None if t is None else {int(a): dg for a, dg in t.items()} for t in r["traj"]]
            return r
    raise RuntimeError("fresh-process run produced no result: " + (p.stderr or p.stdout)[-400:])


def compare(run: Run, c, base, other, v):
    fails = []
    for k, (a, b) in enumerate(zip(base["traj"], other["traj"])):
        if b is None:
            continue
        for aid in (a or {}):
            if aid in b and a[aid] != b[aid]:
                fails.append((f"truth:{v}", f"step {k}: truth state of agent {aid} differs between the baseline run and variant '{v}' ({c['prop']}, dt {c['dt']}, impulse {c['impulse']})"))
                return fails
    for aid, per in base["stored"].items():
        if aid in other["stored"]:
            for jd, dg in per.items():
                if jd in other["stored"][aid] and other["stored"][aid][jd] != dg:
                    fails.append((f"stored:{v}", f"stored truth row of agent {aid} at {jd} differs between the baseline run and variant '{v}'"))
                    return fails
    return fails


def run_cases(run: Run, cs):
    for c in cs:
        run.case("scenario", c, nontrivial=True, branch=c["prop"])
        base = guarded(run_variant, c, "base")
        if base[0] != "ok":
            run.fail("raises", c, f"baseline: {base[1]}")
            continue
        # the model's content is the structure of the step; it is validated by checking that the truth of step k+1 of every agent is a
        # function of its own state at step k alone: identical agents across variants have identical trajectories (below)
        for v in c["variants"]:
            other = guarded(run_variant, c, v)
            run.count(f"variant:{v}")
            run.case("pair", {"scenario_seed": c["seed"], "variant": v, "prop": c["prop"], "dt": c["dt"], "steps": c["steps"]}, nontrivial=True, branch=f"variant:{v}")
            if other[0] != "ok":
                run.fail("raises", {**c, "variant": v}, f"variant {v}: {other[1]}")
                continue
            run.model_compared += 1
            for key, what in compare(run, c, base[1], other[1], v):
                run.fail(key, {**c, "variant": v}, what)
        # one more comparison per scenario against a run in a fresh process (with a different set or order of agents): the truth of
        # an agent must not depend on what the process built before either
        fv = c.get("fresh") or "drop_first"
        fresh = guarded(run_variant_fresh, c, fv)
        run.count(f"variant:fresh:{fv}")
        run.case("pair", {"scenario_seed": c["seed"], "variant": "fresh:" + fv, "prop": c["prop"]}, nontrivial=True, branch="variant:fresh-process")
        if fresh[0] != "ok":
            run.fail("raises", {**c, "variant": "fresh:" + fv}, f"fresh-process variant {fv}: {fresh[1]}")
        else:
            run.model_compared += 1
            for key, what in compare(run, c, base[1], fresh[1], "fresh-process:" + fv):
                run.fail(key, {**c, "variant": "fresh:" + fv}, what)
        scen.cleanup()


def search(run: Run):
    sub = Run.__new__(Run)
    sub.__dict__.update(run.__dict__)
    sub.rng = random.Random(run.seed + 47)
    sub.tier = "quick"
    sub.oracle_failures = []
    run_cases(sub, cases(sub)[:3])
    return sub.oracle_failures[0] if sub.oracle_failures else None


def worker_main():
    job = json.loads(sys.argv[sys.argv.index("--worker") + 1])
    import logging

    logging.getLogger("resonaate").setLevel(logging.CRITICAL)
    r = run_variant(job["c"], job["v"])
    scen.cleanup()
    print("WORKER-RESULT " + json.dumps(r))


def main():
    if "--worker" in sys.argv:
        return worker_main()
    run = Run(
        PID,
        ["RV.Props.C10"],
        ["RV/Model/Truth.lean"],
        "Lean 4 theorems (per-agent update is a function of the agent's own state; order independence of the propagation jobs; non-interference by induction over steps for an "
        "arbitrary rest-of-system; irrelevance of other agents) + pairs of real runs on real Ray compared bit for bit on every truth state per step and on the stored truth rows",
        trusted_extra=[
            "Ray isolates worker-side mutation (real Ray is used, so a leak would show in the comparison)",
            "the theorem is about the step structure (truth update reads only truth); that the real step has this structure is what the bit-for-bit pairs test",
        ],
    )
    run.rule = ("baseline scenario (1-2 radars, 2-3 LEO targets, two-body or perturbed truth, optional NTW impulse, odd-second starts) against variants: truth-only, greedy/random policy, "
                "other noise seed, output every 2nd step, split into uneven propagateTo calls, permuted job completion, an extra target, an extra sensor, one target fewer, the first target dropped, targets listed in reverse order; targets of different mass and area with radiation pressure on; one variant per scenario in a fresh process")
    run.assumptions = []
    run.lean_phase()
    if run.args.replay:
        rp = json.loads(Path(run.args.replay).read_text())
        c = dict(rp["case"])
        v = c.pop("variant", None)
        if v:
            c["variants"] = [v]
        cs = [c] if rp.get("kind") == "failing-input" else cases(run)
    else:
        cs = cases(run)
    run_cases(run, cs)
    run.finish(search)


if __name__ == "__main__":
    main_guard(main)
