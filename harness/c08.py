"""C08 - tasking bookkeeping is exact and independent of the order parallel jobs finish."""
from __future__ import annotations

import hashlib
import json
import random
import sys
from datetime import datetime, timedelta
from pathlib import Path

sys.path.insert(0, str(Path(__file__).resolve().parent))
import numpy as np
import scen
from common import Run, corpus, guarded, main_guard

PID = "C08"
START = datetime(2021, 3, 30, 16, 0, 0)
SITES = [(0.0, 0.0), (5.0, 10.0), (-5.0, -8.0), (8.0, -2.0)]
TGT_SPOTS = [(1.0, 2.0), (4.0, 8.0), (-4.0, -6.0), (2.0, -3.0), (6.0, 3.0)]


def cases(run: Run):
    rng = run.rng
    out = list(corpus(PID))
    for _ in range(run.n(5, 40)):
        ns, nt = rng.randint(1, 4), rng.randint(1, 5)
        decision = rng.choice(["MunkresDecision", "MyopicNaiveGreedyDecision", "RandomDecision", "MunkresDecision", "AllVisibleDecision", "AllVisibleDecision"])
        out.append({
            "ns": ns, "nt": nt, "decision": decision, "steps": rng.randint(2, 3), "displace": [rng.random() < 0.4 for _ in range(nt)],
            "slow": [rng.random() < 0.25 for _ in range(ns)], "narrow": rng.random() < 0.4, "seed": rng.randint(1, 10**6), "orders": rng.sample(range(1, 1000), run.n(3, 6)),
            # serendipitous observations on (with the all-visible policy and a wide cone a sensor then reports the same target from several of its
            # jobs in one step); agent id 0 is a legal id
            "bg": rng.random() < 0.5, "wide": rng.random() < 0.5, "sid0": rng.random() < 0.35, "outk": rng.choice([1, 1, 2, 3]),
        })
        out[-1]["steps"] = out[-1]["outk"] * max(1, out[-1]["steps"] // out[-1]["outk"])  # the run ends on a save
    out.extend(mixed_outcome_cases(rng))
    # one sensor alternating between two targets over several steps (stalest first): what it reports in a step replaces what it reported before,
    # from a higher target id to a lower one as well
    out.append({"ns": 1, "nt": 2, "decision": "MyopicNaiveGreedyDecision", "steps": 4, "displace": [False, False], "slow": [False], "narrow": False,
                "seed": rng.randint(1, 10**6), "orders": [rng.randint(1, 999)], "bg": False, "wide": False, "sid0": False, "outk": 1})
    # one sensor reporting the same target from several of its jobs in a step: all-visible policy, wide cones, serendipitous observations on
    out.append({"ns": rng.randint(1, 2), "nt": rng.randint(2, 3), "decision": "AllVisibleDecision", "steps": 3, "displace": [False] * 3, "slow": [False] * 2, "narrow": False,
                "seed": rng.randint(1, 10**6), "orders": rng.sample(range(1, 1000), 2), "bg": True, "wide": True, "sid0": False})
    return out


def mixed_outcome_cases(rng):
    """several sensors tasked to the same target in one step, one of them with a field of view too narrow for the estimate error: the job returns observations AND a miss"""
    out = []
    for decision in ("AllVisibleDecision", "MyopicNaiveGreedyDecision"):
        ns = rng.randint(2, 4)
        narrow_s = [False] * ns
        narrow_s[rng.randrange(ns)] = True
        # the truth is 2.5 deg from the estimate every sensor points at: the 1 deg cone misses it, the 90 deg cones see it
        out.append({"ns": ns, "nt": 1, "decision": decision, "steps": 2, "displace": [True], "slow": [False] * ns, "narrow": False, "narrow_s": narrow_s,
                    "seed": rng.randint(1, 10**6), "orders": [rng.randint(1, 999)]})
    return out


def build_case(c):
    from resonaate.physics.transforms.methods import ecef2eci, lla2ecef

    sensors = []
    for k in range(c["ns"]):
        lat, lon = SITES[k]
        narrow = c["narrow_s"][k] if "narrow_s" in c else c["narrow"]
        fov = {"fov_shape": "conic", "cone_angle": 1.0} if narrow else {"fov_shape": "conic", "cone_angle": 90.0} if ("narrow_s" in c or c.get("wide")) else None
        # the all-visible policy is only accepted for advanced (phased-array) radars
        sid = 0 if (k == 0 and c.get("sid0")) else 60001 + k
        sensors.append(scen.radar_cfg(sid, lat, lon, slew=(0.05 if (c["slow"][k] and sid != 0) else 5.0), fov=fov, adv=(c["decision"] == "AllVisibleDecision"), bg=bool(c.get("bg"))))
    targets = []
    for k in range(c["nt"]):
        lat, lon = TGT_SPOTS[k]
        ecef = lla2ecef(np.array([np.radians(lat), np.radians(lon), 700.0 + 50 * k]))
        eci = ecef2eci(ecef, START + timedelta(seconds=90))
        r = eci[:3]
        v = np.cross([0, 0, 1.0], r)
        v = v / np.linalg.norm(v) * np.sqrt(398600.4418 / np.linalg.norm(r))
        targets.append(scen.target_cfg(10001 + k, r, v))
    eng = [scen.engine_cfg(1, targets, sensors, decision=c["decision"], seed=c["seed"] % 1000)]
    # the database is written every `outk` steps: what the steps in between produced waits in the engine until then
    cfg = scen.scenario_cfg(START, 60, 60 * (c["steps"] + 1), eng, seed=c["seed"], out_step=60 * c.get("outk", 1))
    app = scen.build(cfg)
    # truth displaced from the estimate for some targets: the sensor points at the estimate and may miss
    for k, d in enumerate(c["displace"]):
        if d:
            tgt = app.target_agents[10001 + k]
            x = np.array(tgt.eci_state, dtype=float)
            ang = np.radians(2.5)
            axis = np.cross(x[:3], x[3:])
            axis /= np.linalg.norm(axis)

            def rot(vv):
                return vv * np.cos(ang) + np.cross(axis, vv) * np.sin(ang) + axis * (axis @ vv) * (1 - np.cos(ang))

            tgt.eci_state = np.concatenate([rot(x[:3]), rot(x[3:])])
    return app


def digest(x):
    return hashlib.sha1(np.ascontiguousarray(np.asarray(x, dtype=float)).tobytes()).hexdigest()[:12]


def run_order(c, order_seed):
    """Run the scenario with a seeded completion order; returns per-step observables and the job results as processed."""
    import resonaate.parallel.tasking_execution as te
    import resonaate.parallel.tasking_reward_generation as trg

    from resonaate.physics.time.stardate import JulianDate, ScenarioTime

    app = build_case(c)
    rng = random.Random(order_seed)
    if order_seed == 0:
        chooser = lambda n, b: 0
    elif order_seed == -1:
        chooser = lambda n, b: n - 1
    else:
        chooser = lambda n, b: rng.randrange(n)
    processed = []
    old_t, old_r = te.TaskExecutionRegistration.processResults, trg.TaskingRewardRegistration.processResults

    def rec_t(self, results):
        processed.append(("T", results))
        return old_t(self, results)

    def rec_r(self, results):
        processed.append(("R", results))
        return old_r(self, results)

    te.TaskExecutionRegistration.processResults, trg.TaskingRewardRegistration.processResults = rec_t, rec_r
    steps = []
    try:
        with scen.completion_order(chooser):
            for k in range(c["steps"]):
                processed.clear()
                # one step through the real run loop, which also writes the database on output steps
                app.propagateTo(JulianDate(ScenarioTime(60.0 * (k + 1)).convertToJulianDate(app.clock.julian_date_start)))
                e = list(app._tasking_engines.values())[0]
                obs = sorted((o.sensor_id, o.target_id, digest(o.measurement_states)) for o in e.observations)
                miss = sorted((m.sensor_id, m.target_id, str(m.reason)) for m in e.missed_observations)
                sensors = {sid: (digest(s.sensors.boresight), float(s.sensors.time_last_tasked)) for sid, s in sorted(app.sensor_agents.items())}
                est = {tid: (digest(a.eci_state), digest(a.nominal_filter.est_p)) for tid, a in sorted(app.estimate_agents.items())}
                truth = {tid: digest(a.eci_state) for tid, a in sorted(app.target_agents.items())}
                jobs = []
                for kind, r in processed:
                    if kind == "R":
                        jobs.append({"k": "R", "row": e.target_list.index(r.estimate_id), "vis": [bool(x) for x in r.visibility]})
                    else:
                        jobs.append({"k": "T", "target": r.target_id, "obs": [(o.sensor_id, o.target_id) for o in r.observations],
                                     "missed": [(bool(m), (m.sensor_id if m else 0), (m.target_id if m else 0)) for m in r.missed_observations],
                                     "info": [(i["sensor_id"], digest(i["boresight"]), float(i["time_last_tasked"])) for i in r.sensor_info_list]})
                steps.append({
                    "time": float(app.clock.time), "vis": e.visibility_matrix.astype(int).tolist(), "dec": e.decision_matrix.astype(int).tolist(),
                    "reward": digest(e.reward_matrix), "obs": obs, "miss": miss,
                    # the engine's list as it stands: its sequence is what the filters stack and what the rows are written from
                    "obs_seq": [(o.sensor_id, o.target_id, digest(o.measurement_states)) for o in e.observations], "changes": sorted(e.sensor_changes.keys()), "sensors": sensors, "est": est, "truth": truth,
                    "jobs": jobs, "targets": list(e.target_list), "sensor_list": list(e.sensor_list),
                    "n_obs_attr": len(e.observations), "n_miss_attr": len(e.missed_observations),
                })
        app.saveDatabaseOutput() if False else None
        rows = db_rows(app)
    finally:
        te.TaskExecutionRegistration.processResults, trg.TaskingRewardRegistration.processResults = old_t, old_r
    return {"steps": steps, "rows": rows}


def db_rows(app):
    from sqlalchemy.orm import Query

    from resonaate.data.observation import MissedObservation, Observation
    from resonaate.data.task import Task

    db = app.database
    obs = sorted((o.sensor_id, o.target_id, round(o.julian_date, 9)) for o in db.getData(Query(Observation)))
    miss = sorted((o.sensor_id, o.target_id, round(o.julian_date, 9)) for o in db.getData(Query(MissedObservation)))
    tasks = sorted((t.sensor_id, t.target_id, round(t.julian_date, 9), bool(t.decision)) for t in db.getData(Query(Task)))
    return {"obs": obs, "miss": miss, "tasks": tasks}


def model_line(step):
    """the job results in the order the real join processed them, for the Lean engine model"""
    parts = []
    bid = {}
    for j in step["jobs"]:
        if j["k"] == "R":
            parts.append(f"R {j['row']} {len(j['vis'])} " + " ".join("1" if v else "0" for v in j["vis"]))
        else:
            o = " ".join(f"{s} {t} 1" for s, t in j["obs"])
            m = " ".join(f"{1 if f else 0} {s} {t} 2" for f, s, t in j["missed"])
            inf = []
            for s, b, lt in j["info"]:
                bid.setdefault(b, len(bid) + 1)
                inf.append(f"{s} {bid[b]} {int(lt)}")
            parts.append(f"T {j['target']} {len(j['obs'])} {o} {len(j['missed'])} {m} {len(j['info'])} " + " ".join(inf))
    sensors = step["sensor_list"]
    return (f"eng.step repaired {len(step['targets'])} {len(sensors)} " + " ".join(map(str, sensors)) + f" {len(step['jobs'])} " + " ".join(parts)), bid


def check_step_against_model(run, c, step, mo):
    line_bid = model_line(step)[1]
    want_obs = ",".join(sorted(f"{s}:{t}:1" for s, t, _ in step["obs"]))
    want_miss = ",".join(sorted(f"{s}:{t}:2" for s, t, _ in step["miss"]))
    vis = ",".join("".join(str(x) for x in row) for row in step["vis"])
    ok = f"obs[{want_obs}]" in mo and f"missed[{want_miss}]" in mo and f"vis[{vis}]" in mo
    # pointing: every sensor in engine.sensor_changes has the model's last report
    sc = mo[mo.index("sc[") + 3 : -1].split(",") if "sc[" in mo else []
    changed = sorted(int(x.split("=")[0]) for x in sc if not x.endswith("=-"))
    if changed != step["changes"]:
        ok = False
    # ... and the pointing state each changed sensor ends the step with is the one the model selects (the report of the highest
    # target id when several jobs tasked the sensor)
    inv = {v: k for k, v in line_bid.items()}
    for x in sc:
        sid, val = x.split("=")
        if val == "-":
            continue
        b, lt = val.split("/")
        want = (inv.get(int(b)), float(lt))
        got = step["sensors"].get(int(sid))
        if got is None or (got[0], float(got[1])) != want:
            ok = False
    return ok


def oracle_single(run: Run, c, res):
    """bookkeeping within one run"""
    fails = []
    for k, st in enumerate(res["steps"]):
        T, S = st["targets"], st["sensor_list"]
        tasked = [(S[j], T[i]) for i in range(len(T)) for j in range(len(S)) if st["dec"][i][j]]
        for s, t in tasked:
            # the record for the primary target is the one the job of that target returns (with serendipitous observations on, another job of
            # the same sensor may report the target as well: that is an extra observation, not this pair's record)
            # counted on what the ENGINE holds after the step (not on what the jobs returned): its observations of the pair minus those that
            # other jobs of the step reported serendipitously, plus its missed records of the pair
            others = sum(1 for j in st["jobs"] if j["k"] == "T" and j["target"] != t for (so, to) in j["obs"] if (so, to) == (s, t))
            n_obs = sum(1 for (so, to, _) in st["obs"] if (so, to) == (s, t)) - others
            n_miss = sum(1 for (sm, tm, _) in st["miss"] if (sm, tm) == (s, t))
            if n_obs + n_miss != 1:
                fails.append(("records", f"step {k + 1}: tasked pair sensor {s} / target {t} has {n_obs} observations and {n_miss} missed records (decision {c['decision']})"))
            sens = st["sensors"][s]
            if abs(sens[1] - st["time"]) > 1e-6:
                fails.append(("last-tasked", f"step {k + 1}: sensor {s} was tasked on {t} but its time_last_tasked is {sens[1]} at time {st['time']}"))
            if s not in st["changes"]:
                fails.append(("pointing", f"step {k + 1}: tasked sensor {s} has no pointing update"))
            run.count("tasked-pair:" + ("obs" if n_obs else "miss"))
        for (sm, tm, _) in st["miss"]:
            if (sm, tm) not in tasked:
                fails.append(("stray-miss", f"step {k + 1}: missed record for untasked pair ({sm},{tm})"))
        if len(st["miss"]) != len(set((a, b) for a, b, _ in st["miss"])):
            fails.append(("duplicate-miss", f"step {k + 1}: duplicated missed records {st['miss']}"))
    # stored rows: one task row per (sensor,target,epoch); each observation/miss stored once
    for key in ("obs", "miss", "tasks"):
        rows = res["rows"][key]
        if key != "obs" and len(rows) != len(set(rows)):
            fails.append(("stored-duplicates", f"duplicate rows in table {key}"))
    # every record a step produced is stored, once (the run ends on a save)
    n_obs = sum(len(st["obs"]) for st in res["steps"])
    n_miss = sum(len(st["miss"]) for st in res["steps"])
    if len(res["steps"]) % c.get("outk", 1) == 0:
        if len(res["rows"]["obs"]) != n_obs or len(res["rows"]["miss"]) != n_miss:
            fails.append(("stored-records", f"the steps produced {n_obs} observations and {n_miss} missed observations, the database holds {len(res['rows']['obs'])} and {len(res['rows']['miss'])} "
                                            f"(database written every {c.get('outk', 1)} steps, {len(res['steps'])} steps, decision {c['decision']})"))
    return fails


def compare_orders(run, c, base, other, label):
    fails = []
    for k, (a, b) in enumerate(zip(base["steps"], other["steps"])):
        for key in ("vis", "dec", "reward", "obs", "obs_seq", "miss", "changes", "sensors", "est", "truth"):
            if a[key] != b[key]:
                fails.append((f"order:{key}", f"step {k + 1}: '{key}' differs between completion orders (FIFO vs {label}); decision {c['decision']}, sensors {c['ns']}, targets {c['nt']}"))
                return fails
    if base["rows"] != other["rows"]:
        fails.append(("order:rows", f"stored rows differ between completion orders (FIFO vs {label})"))
    return fails


def run_cases(run: Run, cs):
    lines, owners = [], []
    results = []
    for c in cs:
        base = guarded(run_order, c, 0)
        results.append((c, base))
        if base[0] == "ok":
            for k, st in enumerate(base[1]["steps"]):
                owners.append((len(results) - 1, k))
                lines.append(model_line(st)[0])
    outs = run.model(lines)
    for idx, (c, base) in enumerate(results):
        run.case("scenario", c, nontrivial=True, branch=c["decision"])
        if base[0] != "ok":
            run.fail("raises", c, f"{base[1]}")
            continue
        if outs is not None:
            for (ci, k), mo in zip(owners, outs):
                if ci != idx:
                    continue
                run.model_compared += 1
                if mo == "bad-op" or not check_step_against_model(run, c, base[1]["steps"][k], mo):
                    run.disagree("engine-merge", c, {kk: base[1]["steps"][k][kk] for kk in ("obs", "miss", "vis", "changes")}, mo)
        for key, what in oracle_single(run, c, base[1]):
            run.fail(key, c, what)
        njobs = sum(len(st["jobs"]) for st in base[1]["steps"])
        run.count("jobs", njobs)
        for osd in [-1] + list(c["orders"]):
            other = guarded(run_order, c, osd)
            run.count("orders-compared")
            if other[0] != "ok":
                run.fail("raises", c, f"order {osd}: {other[1]}")
                continue
            for key, what in compare_orders(run, c, base[1], other[1], "LIFO" if osd == -1 else f"seeded order {osd}") + oracle_single(run, c, other[1]):
                run.fail(key, {**c, "order_seed": osd}, what)
    scen.cleanup()


def search(run: Run):
    sub = Run.__new__(Run)
    sub.__dict__.update(run.__dict__)
    sub.rng = random.Random(run.seed + 37)
    sub.tier = "quick"
    sub.oracle_failures = []
    sub.disagreements = []
    run_cases(sub, cases(sub)[:8])
    if sub.oracle_failures:
        return sub.oracle_failures[0]
    return None


def main():
    run = Run(
        PID,
        ["RV.Props.C08"],
        ["RV/Model/Engine.lean"],
        "Lean 4 theorems (pairwise commutativity of the processResults merges, lifted to every permutation of a batch by induction over List.Perm; "
        "exact record counts; pointing = last report) + real scenarios on real Ray with the completion order of every JobExecutor.join chosen by the "
        "harness (FIFO, LIFO, seeded random), observables compared across orders and the merge sequence replayed through the model",
        trusted_extra=[
            "Ray's object store gives each worker its own copy and ray.wait is complete: only the order in which finished jobs are processed is chosen",
            "the scenario is rebuilt from the same configuration and seed for every order; equality of observables is exact (hashes of the float arrays)",
        ],
    )
    run.rule = ("1-4 ground radars x 1-5 LEO targets, Munkres / greedy / random policies, some truths displaced 2.5 deg from their estimates, some sensors too slow "
                "to slew, narrow fields of view, 2-3 steps; per scenario FIFO + LIFO + 3 (thorough 6) seeded completion orders; every case non-trivial")
    run.assumptions = ["with the all-visible policy (advanced radars only) one sensor is tasked to several targets in a step: its pointing state is the report of the highest target id"]
    run.lean_phase()
    if run.args.replay:
        rp = json.loads(Path(run.args.replay).read_text())
        cs = [{k: v for k, v in rp["case"].items() if k != "order_seed"}] if rp.get("kind") == "failing-input" else cases(run)
    else:
        cs = cases(run)
    run_cases(run, cs)
    run.finish(search)


if __name__ == "__main__":
    main_guard(main)
