"""C20 - Lambert solutions and orbit determination reproduce the arc they were given."""
from __future__ import annotations

import json
import math
import sys
from datetime import datetime, timedelta
from fractions import Fraction
from pathlib import Path

sys.path.insert(0, str(Path(__file__).resolve().parent))
import numpy as np
from common import Run, corpus, fmt, frac, guarded, main_guard

PID = "C20"
MU = 398600.4415
RE = 6378.1363
START = datetime(2021, 3, 30, 12, 0, 0)


def kepler_state(a, e, i, O, w, nu, MU=MU):
    p = a * (1 - e * e)
    r = p / (1 + e * math.cos(nu))
    cO, sO, ci, si, cw, sw = math.cos(O), math.sin(O), math.cos(i), math.sin(i), math.cos(w), math.sin(w)
    P = np.array([cw * cO - sw * ci * sO, cw * sO + sw * ci * cO, sw * si])
    Q = np.array([-sw * cO - cw * ci * sO, -sw * sO + cw * ci * cO, cw * si])
    return np.concatenate([r * (math.cos(nu) * P + math.sin(nu) * Q), math.sqrt(MU / p) * (-math.sin(nu) * P + (e + math.cos(nu)) * Q)])


def cases(run: Run):
    rng = run.rng
    out = list(corpus(PID))
    for _ in range(run.n(500, 6000)):
        while True:
            a = rng.choice([7000.0, 8000.0, 12000.0, 26600.0, 42164.0, rng.uniform(6800, 45000)])
            e = rng.choice([0.0, 0.01, 0.05, 0.2, 0.5, 0.7, rng.uniform(0, 0.7)])
            if a * (1 - e) > RE + 150:
                break
        kind = rng.choice(["any", "any", "long-half", "short", "long", "nearly-full"])
        nu1 = rng.uniform(0, 2 * math.pi)
        tf = rng.uniform(0.02, 0.98)
        if kind == "long-half":
            # long-way arcs of about half a period that start on the inbound half of the orbit
            nu1 = rng.uniform(math.pi, 2 * math.pi)
            tf = rng.uniform(0.40, 0.62)
        elif kind == "short":
            tf = rng.uniform(0.02, 0.45)
        elif kind == "long":
            tf = rng.uniform(0.55, 0.98)
        elif kind == "nearly-full":
            # nearly a whole revolution of an eccentric orbit, leaving shortly after perigee: the time-of-flight curve of the universal variable is
            # steep here and its next branch (one more revolution) is close by
            if a * (1 - 0.5) > RE + 150:
                e = rng.uniform(0.5, min(0.72, 1 - (RE + 150) / a))
            nu1 = rng.uniform(math.radians(5), math.radians(95))
            tf = rng.uniform(0.88, 0.98)
        out.append({"op": "arc", "a": a, "e": e, "i": rng.choice([0.0, 0.4, 1.1, math.pi / 2, 2.4, rng.uniform(0, math.pi)]), "O": rng.uniform(0, 2 * math.pi),
                    "w": rng.uniform(0, 2 * math.pi), "nu": nu1, "tf": tf, "kind": kind,
                    # the solvers take the gravitational parameter of the central body: Earth mostly, now and then the Moon, Mars, Venus, Uranus
                    "mu": MU if rng.random() < 0.8 else rng.choice([4902.800066, 42828.375214, 324858.592, 5793939.0])})
    for _ in range(run.n(60, 600)):
        out.append({"op": "obs", "lat": math.degrees(math.asin(rng.uniform(-0.99, 0.99))), "lon": rng.uniform(-180, 180), "alt": rng.choice([0.0, 0.3, 2.0]),
                    "az": rng.uniform(0, 360), "el": rng.choice([1.0, 10.0, 45.0, 80.0, 89.0, rng.uniform(1, 89)]), "rho": rng.choice([300.0, 1500.0, 8000.0, 36000.0, 60000.0]),
                    "sec": rng.choice([0, 17, 59]), "day": rng.randint(0, 400), "space": rng.random() < 0.25})
    for _ in range(run.n(30, 300)):
        a = rng.choice([7178.0, 8000.0, 26560.0, 42164.0, rng.uniform(6900, 43000)])
        out.append({"op": "iod", "a": a, "e": rng.choice([0.0, 0.0005, 0.002, 0.005]), "i": rng.choice([0.05, 0.96, 1.72, 2.6, rng.uniform(0.05, 3.0)]), "O": rng.uniform(0, 2 * math.pi),
                    "w": rng.uniform(0, 2 * math.pi), "nu": rng.uniform(0, 2 * math.pi), "gap": rng.choice([0.03, 0.1, 0.17, 0.19, 0.25, 0.3, 0.34, 0.37, 0.39, rng.uniform(0.02, 0.395)]),
                    "solver": rng.choice(["universal", "universal", "battin"]), "extra_prev": rng.randint(0, 2),
                    # the configured minimum spacing between observations, and now and then a pair closer than that with older observations stored
                    "spacing": rng.choice([60, 60, 120, 300, 10]), "gap_s": rng.choice([None, None, None, 60, 30, 90, 120])})
        if rng.random() < 0.3 and a < 9000:
            out[-1]["episode"] = True  # low orbits: the refused first attempt is 1.03 periods after the old observation
    return out


# ----------------------------------------------------------------------------- real code
def radar_measurement():
    from resonaate.physics.measurements import Measurement

    return Measurement.fromMeasurementLabels(["azimuth_rad", "elevation_rad", "range_km", "range_rate_km_p_sec"], np.eye(4) * 1e-12)


def impl_arc(c):
    from resonaate.physics.orbit_determination.lambert import lambertBattin, lambertUniversal
    from resonaate.physics.orbits.kepler import solveKeplerProblemUniversal

    mu = float(c.get("mu", MU))
    x1 = kepler_state(c["a"], c["e"], c["i"], c["O"], c["w"], c["nu"], MU=mu)
    period = 2 * math.pi * math.sqrt(c["a"] ** 3 / mu)
    tof = c["tf"] * period
    x2 = np.asarray(solveKeplerProblemUniversal(x1, tof, mu=mu))
    h = np.cross(x1[:3], x1[3:])
    # transfer angle measured along the motion
    dnu = math.atan2(float(np.cross(x1[:3], x2[:3]) @ h) / float(np.linalg.norm(h)), float(x1[:3] @ x2[:3])) % (2 * math.pi)
    out = {"x1": [float(v) for v in x1], "x2": [float(v) for v in x2], "tof": tof, "dnu": dnu}
    tm = 1 if dnu < math.pi else -1
    out["tm"] = tm
    for name, fn in (("universal", lambertUniversal), ("battin", lambertBattin)):
        try:
            v1, v2 = fn(x1[:3], x2[:3], tof, tm, mu=mu) if mu != MU else fn(x1[:3], x2[:3], tof, tm)
            v1, v2 = np.asarray(v1, float), np.asarray(v2, float)
            arr = np.asarray(solveKeplerProblemUniversal(np.concatenate([x1[:3], v1]), tof, mu=mu))
            out[name] = {"v1": [float(v) for v in v1], "v2": [float(v) for v in v2], "arrive": [float(v) for v in arr]}
        except Exception as ex:  # noqa: BLE001
            out[name] = {"error": f"{type(ex).__name__}: {ex}"}
    return out


def site_state(c, when):
    from resonaate.physics.transforms.methods import ecef2eci, lla2ecef

    if c.get("space"):
        return kepler_state(7100.0, 0.001, 0.9, math.radians(c["lon"] % 360), 1.0, math.radians(c["az"]))
    return np.asarray(ecef2eci(lla2ecef(np.array([math.radians(c["lat"]), math.radians(c["lon"]), c["alt"]])), when))


def impl_obs(c):
    from resonaate.common.labels import SensorLabel
    from resonaate.data.observation import Observation
    from resonaate.physics.time.stardate import datetimeToJulianDate
    from resonaate.physics.transforms.methods import ecef2eci, eci2ecef, ecef2lla, lla2ecef, radarObs2eciPosition, razel2sez, sez2ecef

    when = datetime(2020, 1, 1, 6, 30, c["sec"]) + timedelta(days=c["day"])
    sensor = site_state(c, when)
    # a target at the given azimuth/elevation/range of the sensor
    s_ecef = np.asarray(eci2ecef(sensor, when))
    lla = ecef2lla(s_ecef)
    sez = razel2sez(c["rho"], math.radians(c["el"]), math.radians(c["az"]), 0.0, 0.0, 0.0)
    tgt_ecef = s_ecef + np.asarray(sez2ecef(sez, float(lla[0]), float(lla[1])))
    target = np.asarray(ecef2eci(tgt_ecef, when))
    target[3:] = np.cross([0.0, 0.0, 1.0], target[:3]) / np.linalg.norm(target[:3]) * 3.0
    obs = Observation.fromMeasurement(epoch_jd=datetimeToJulianDate(when), target_id=10001, tgt_eci_state=target, sensor_id=60001, sensor_eci=sensor,
                                      sensor_type=SensorLabel.ADV_RADAR, measurement=radar_measurement(), noisy=False)
    back = np.asarray(radarObs2eciPosition(obs))
    return {"target": [float(v) for v in target[:3]], "back": [float(v) for v in back], "sensor": [float(v) for v in sensor[:3]],
            "meas": [float(obs.azimuth_rad), float(obs.elevation_rad), float(obs.range_km)]}


def impl_iod(c):
    from unittest import mock

    import resonaate.estimation.initial_orbit_determination as iod_module
    from resonaate.common.labels import SensorLabel
    from resonaate.data.agent import AgentModel
    from resonaate.data.epoch import Epoch
    from resonaate.data.observation import Observation
    from resonaate.data.resonaate_database import ResonaateDatabase
    from resonaate.physics.orbit_determination.lambert import lambertBattin, lambertUniversal
    from resonaate.physics.orbits.kepler import solveKeplerProblemUniversal
    from resonaate.physics.time.stardate import ScenarioTime, datetimeToJulianDate
    from resonaate.physics.transforms.methods import ecef2eci, eci2lla, lla2ecef

    period = 2 * math.pi * math.sqrt(c["a"] ** 3 / MU)
    t1 = 600
    t_old = t_a = None
    if c.get("episode"):
        # one detection episode on one IOD object: an attempt that is refused (the only stored observation is more than a period old), a newer
        # observation arrives, the next attempt must use THAT one - position and epoch alike
        t_old, t_a = 600, 600 + int(round(1.03 * period / 60.0)) * 60
        t1 = t_a + 60
    gap = max(60, int(round(c["gap"] * period / 60.0)) * 60)
    if c.get("gap_s"):
        gap = int(c["gap_s"])
    t2 = t1 + gap
    x0 = kepler_state(c["a"], c["e"], c["i"], c["O"], c["w"], c["nu"])
    xs = {t: np.asarray(solveKeplerProblemUniversal(x0, float(t))) for t in (t1, t2)}
    if t_old is not None:
        xs[t_old], xs[t_a] = np.asarray(solveKeplerProblemUniversal(x0, float(t_old))), np.asarray(solveKeplerProblemUniversal(x0, float(t_a)))
    extra_times = [t1 - 120 * (k + 1) for k in range(c["extra_prev"])]
    for t in extra_times:
        xs[t] = np.asarray(solveKeplerProblemUniversal(x0, float(t)))

    def observe(t):
        when = START + timedelta(seconds=t)
        lla = eci2lla(xs[t], when)
        lat = float(np.clip(lla[0] + math.radians(9.0), -1.4, 1.4))
        site = np.asarray(ecef2eci(lla2ecef(np.array([lat, float(lla[1]) + math.radians(11.0), 0.1])), when))
        return Observation.fromMeasurement(epoch_jd=datetimeToJulianDate(when), target_id=10001, tgt_eci_state=xs[t], sensor_id=60001, sensor_eci=site,
                                           sensor_type=SensorLabel.ADV_RADAR, measurement=radar_measurement(), noisy=False), when

    db = ResonaateDatabase(db_path="sqlite://")
    db.insertData(AgentModel(unique_id=10001, name="target"), AgentModel(unique_id=60001, name="radar"))
    solver = lambertUniversal if c["solver"] == "universal" else lambertBattin
    iod = iod_module.LambertIOD(c.get("spacing", 60), solver, 10001, datetimeToJulianDate(START))
    first_attempt = None
    if t_old is not None:
        extra_times = [t for t in extra_times if t > t_a]
        ob, when = observe(t_old)
        db.insertData(Epoch(julian_date=float(ob.julian_date), timestampISO=when.isoformat()))
        db.insertData(ob)
        with mock.patch.object(iod_module, "getDBConnection", lambda: db):
            sol0 = iod.determineNewEstimateState([observe(t_a)[0]], ScenarioTime(0.0), ScenarioTime(float(t_a)))
        first_attempt = {"converged": bool(sol0.convergence), "message": str(sol0.message)}
    for t in sorted(extra_times) + [t1]:
        ob, when = observe(t)
        db.insertData(Epoch(julian_date=float(ob.julian_date), timestampISO=when.isoformat()))
        db.insertData(ob)
    second, _ = observe(t2)
    with mock.patch.object(iod_module, "getDBConnection", lambda: db):
        sol = iod.determineNewEstimateState([second], ScenarioTime(0.0), ScenarioTime(float(t2)))
    jd2 = float(ScenarioTime(float(t2)).convertToJulianDate(datetimeToJulianDate(START)))
    jd1 = float(datetimeToJulianDate(START + timedelta(seconds=t1)))
    return {"tof_as_computed": (jd2 - jd1) * 86400.0, "converged": bool(sol.convergence), "message": str(sol.message), "state": [float(v) for v in sol.state_vector] if sol.state_vector is not None else None,
            "truth": [float(v) for v in xs[t2]], "gap_fraction": gap / period, "gap": gap, "first_attempt": first_attempt}


def impl_run(c):
    return {"arc": impl_arc, "obs": impl_obs, "iod": impl_iod}[c["op"]](c)


def oracle(run: Run, c, impl):
    if impl[0] != "ok":
        return [("raises", f"{c['op']}: {impl[1]}")]
    o = impl[1]
    fails = []
    if c["op"] == "arc":
        dnu_deg = math.degrees(o["dnu"])
        # neighbourhoods of 0 / 180 / 360 degrees are outside the property
        if min(dnu_deg, abs(dnu_deg - 180.0), 360.0 - dnu_deg) < 8.0:
            run.boundary_skips += 1
            return fails
        run.count("sense:" + ("short" if o["tm"] == 1 else "long"))
        x2 = np.array(o["x2"])
        desc = f"mu={c.get('mu', MU)} a={c['a']:.0f} e={c['e']:.3f} i={c['i']:.2f} nu1={math.degrees(c['nu']):.1f} deg, transfer {dnu_deg:.1f} deg ({'short' if o['tm'] == 1 else 'long'} way), tof {c['tf']:.3f} of the period"
        for name in ("universal", "battin"):
            r = o[name]
            if "error" in r:
                fails.append((f"{name}:raises", f"{name} solver raised {r['error']} ({desc})"))
                continue
            arr = np.array(r["arrive"])
            dp = float(np.linalg.norm(arr[:3] - x2[:3]))
            dv = float(np.linalg.norm(arr[3:] - np.array(r["v2"])))
            dtrue = float(np.linalg.norm(np.array(r["v1"]) - np.array(o["x1"])[3:]))
            run.worse(f"{name}:arrival-km", dp)
            run.worse(f"{name}:final-velocity", dv)
            # the iterations stop at a tolerance of 1.5e-8 in their own variable; over the time of flight that is up to a few 1e-6 km per second of flight (Battin, e = 0.7, long way: 4.4e-2 km after 40 700 s)
            vs = max(1.0, math.sqrt(float(c.get("mu", MU)) / MU))  # velocities scale with the square root of the gravitational parameter
            if c.get("mu", MU) != MU:
                run.count("arc:other-central-body")
            if not (dp <= 1e-3 + 5e-6 * o["tof"] * vs and dv <= 5e-5 * vs and dtrue <= 5e-5 * vs):
                fails.append((f"{name}:arc", f"{name}: propagating r1 with the returned v1 for the time of flight misses r2 by {dp:.6g} km and the returned v2 by {dv:.3g} km/s "
                                             f"(returned v1 differs from the arc's by {dtrue:.3g} km/s) ({desc})"))
    elif c["op"] == "obs":
        d = float(np.linalg.norm(np.array(o["back"]) - np.array(o["target"])))
        run.worse("obs-inversion-km", d)
        if not d <= 1e-6 * max(1.0, c["rho"] / 1000.0):
            fails.append(("obs-inversion", f"radarObs2eciPosition of the noise-free observation is {d:.6g} km from the target (site lat {c['lat']:.2f} lon {c['lon']:.2f}, az {c['az']:.2f} el {c['el']:.2f} range {c['rho']})"))
    else:
        desc = f"a={c['a']:.0f} e={c['e']} i={c['i']:.2f}, observations {o['gap']} s = {o['gap_fraction']:.3f} of the period apart, {c['solver']} solver, {c['extra_prev']} older observations stored"
        if o["gap_fraction"] >= 0.4:
            run.boundary_skips += 1
            return fails
        run.count("iod:gap<%d%%" % (10 * (int(o["gap_fraction"] * 10) + 1)))
        if not o["converged"] or o["state"] is None:
            fails.append(("iod:refused", f"the orbit determination returned no state: '{o['message']}' ({desc})"))
        else:
            dp = float(np.linalg.norm(np.array(o["state"][:3]) - np.array(o["truth"][:3])))
            dv = float(np.linalg.norm(np.array(o["state"][3:]) - np.array(o["truth"][3:])))
            run.worse("iod:position-km", dp)
            run.worse("iod:velocity", dv)
            # the time of flight is a difference of two Julian dates (resolution 4.7e-5 s each): over a short arc that is a relative error of up to
            # 2e-4 s / gap in the time of flight, hence in the velocity
            speed = float(np.linalg.norm(np.array(o["truth"][3:])))
            # the interval the solver is given: (JD of the current scenario time) - (stored JD of the earlier observation), in seconds
            dtof = abs(o.get("tof_as_computed", o["gap"]) - o["gap"])
            run.worse("iod:time-of-flight-error-s", dtof)
            # a transfer angle of a fraction of a degree is the neighbourhood of 0 that the property leaves out for the Lambert solvers (ill-conditioned:
            # GEO, 30 s apart = 0.125 deg gave 2.3e-5 km/s with a time-of-flight error of only 2.4e-5 s): there only a gross error counts
            tiny_arc = 360.0 * o["gap_fraction"] < 8.0
            if tiny_arc:
                run.count("iod:transfer-angle<8deg")
            if not (dp <= 1e-5 and dv <= (1e-3 if tiny_arc else 1e-6 + speed * (2.0 * dtof + 1e-4) / o["gap"])):
                fails.append(("iod:state", f"the determined state is {dp:.6g} km and {dv:.6g} km/s from the orbit's state at the second observation ({desc})"))
    return fails


# ----------------------------------------------------------------------------- model correspondence
def V(l):
    return " ".join(fmt(frac(float(v))) for v in l)


def model_lines(c, o):
    L = []
    if c["op"] == "arc":
        # the Lagrange coefficients of the returned solution, recovered from the returned velocities: f and g from v1, g-dot from v2
        for name in ("universal", "battin"):
            r = o[name]
            if "error" in r:
                continue
            r1, r2, v1, v2 = np.array(o["x1"][:3]), np.array(o["x2"][:3]), np.array(r["v1"]), np.array(r["v2"])
            A = np.stack([r1, v1], axis=1)
            f, g = np.linalg.lstsq(A, r2, rcond=None)[0]
            fd, gd = np.linalg.lstsq(A, v2, rcond=None)[0]
            L.append((f"vel:{name}", f"lb.vel {fmt(frac(float(f)))} {fmt(frac(float(g)))} {fmt(frac(float(gd)))} {V(r1)} {V(r2)}"))
    return L


def compare(run: Run, c, o, key, out):
    if out in ("bad-op", "raise"):
        run.disagree(key, c, "ok", out)
        return
    if key.startswith("vel:"):
        name = key.split(":")[1]
        got = [float(Fraction(t)) for t in out.split()]
        want = o[name]["v1"] + o[name]["v2"]
        if not np.allclose(got, want, rtol=0, atol=1e-6):
            run.disagree(key, c, str(want), str(got))


def run_cases(run: Run, cs):
    impls = [guarded(impl_run, c) for c in cs]
    plan, lines = [], []
    for idx, (c, i) in enumerate(zip(cs, impls)):
        if i[0] == "ok":
            try:
                for key, l in model_lines(c, i[1]):
                    plan.append((idx, key))
                    lines.append(l)
            except (ValueError, OverflowError, np.linalg.LinAlgError):
                pass
    outs = run.model(lines)
    if outs is not None:
        for (idx, key), out in zip(plan, outs):
            run.model_compared += 1
            compare(run, cs[idx], impls[idx][1], key, out)
    for c, i in zip(cs, impls):
        run.case(c["op"], c, nontrivial=True, branch=c["op"] + ":" + str(c.get("kind", c.get("solver", ""))))
        for key, what in oracle(run, c, i):
            run.fail(key, c, what)


def search(run: Run):
    sub = Run.__new__(Run)
    sub.__dict__.update(run.__dict__)
    sub.rng = __import__("random").Random(run.seed + 73)
    sub.tier = "thorough"
    for c in cases(sub)[:3000]:
        f = oracle(run, c, guarded(impl_run, c))
        if f:
            return (f[0][0], c, f[0][1])
    return None


def main():
    run = Run(
        PID,
        ["RV.Props.C20", "RV.Bridge.Lambert"],
        ["RV/Model/Lambert.lean"],
        "Lean 4 theorems (the velocities _calculateVelocities returns close the arc exactly under the Lagrange-coefficient propagation with f*gdot - fdot*g = 1, carry one angular "
        "momentum and lie in the transfer plane, for any coefficients the iteration ends with; radarObs2eciPosition inverts the measurement model for orthogonal frame matrices; "
        "transfer-direction, single-pass and previous-observation selection) + correspondence of _calculateVelocities + the real Lambert solvers on arcs generated by the real Kepler "
        "propagator, re-propagated; the real observation inversion; the real LambertIOD with a real (in-memory) database",
        trusted_extra=[
            "convergence of the universal-variable and Battin iterations is exercised on the real code only (arrival within 1e-3 km + 5e-6 km per second of flight, velocities within 5e-5 km/s)",
            "arcs are generated and re-propagated with the code's own Kepler solver (C03 ties it to the integrators)",
        ],
    )
    run.rule = ("arcs of bound orbits a 6800-45000 km, e <= 0.7, all inclinations, times of flight 2-98 % of the period, both senses, extra weight on long-way arcs of about half a period "
                "starting on the inbound half; transfer angles within 8 deg of 0/180/360 skipped and counted; observation inversion for ground sites at all latitudes/longitudes and "
                "space-based sensors, ranges 300-60000 km, elevations 1-89 deg; IOD from two noise-free radar observations of near-circular orbits 2-39.5 % of a period apart, "
                "0-2 older observations stored, both solvers")
    run.assumptions = []
    run.lean_phase()
    if run.args.replay:
        rp = json.loads(Path(run.args.replay).read_text())
        cs = [rp["case"]] if rp.get("kind") == "failing-input" else cases(run)
    else:
        cs = cases(run)
    run_cases(run, cs)
    run.finish(search)


if __name__ == "__main__":
    main_guard(main)
