"""Shared machinery of the /verif checks (DESIGN.md sections 3, 4 and 8).

A check for property Cxx does, in this order:
  1. regenerate RV/Generated/*.lean from /repo's working tree (harness/extract.py),
  2. `lake build` the property's theorem module(s) and audit their axioms,
  3. run the corpus and freshly generated cases through the real code and through the Lean model
     (line protocol, `lake env lean --run Driver.lean`), compare, and evaluate the property's own
     oracle on the real code's outputs,
  4. if anything broke, search for a failing input on the real code,
  5. write evidence/Cxx.json and, on a violation, a replay file.
"""
from __future__ import annotations

import argparse
import fcntl
import hashlib
import json
import os
import random
import re
import subprocess
import sys
import time
import traceback
from fractions import Fraction
from pathlib import Path

VERIF = Path(__file__).resolve().parent.parent
LEAN = VERIF / "lean"
REPO = Path(os.environ.get("VERIF_REPO", "/repo"))
ALLOWED_AXIOMS = {"propext", "Classical.choice", "Quot.sound"}
FORBIDDEN = re.compile(
    r"\bsorry\b|\badmit\b|^axiom |native_decide|bv_decide|implemented_by|\bunsafe |maxHeartbeats 0",
    re.M,
)
os.environ.setdefault("RESONAATE_VERIF", "1")
import logging as _logging

_logging.getLogger("resonaate").setLevel(_logging.CRITICAL)
_logging.getLogger("resonaate").propagate = False


# ----------------------------------------------------------------------------- numbers
def frac(x) -> Fraction:
    """Exact rational value of a Python/numpy number (floats are dyadic rationals)."""
    if isinstance(x, Fraction):
        return x
    if isinstance(x, bool):
        return Fraction(int(x))
    if isinstance(x, int):
        return Fraction(x)
    return Fraction(*float(x).as_integer_ratio())


def fmt(x) -> str:
    q = frac(x)
    return str(q.numerator) if q.denominator == 1 else f"{q.numerator}/{q.denominator}"


def fmt_list(xs) -> str:
    xs = list(xs)
    return " ".join([str(len(xs))] + [fmt(x) for x in xs])


def fmt_mat(m) -> str:
    m = [list(r) for r in m]
    c = len(m[0]) if m else 0
    return " ".join([str(len(m)), str(c)] + [fmt(x) for r in m for x in r])


def fmt_bmat(m) -> str:
    m = [list(r) for r in m]
    c = len(m[0]) if m else 0
    return " ".join([str(len(m)), str(c)] + [("1" if x else "0") for r in m for x in r])


def parse_tokens(line: str):
    return [Fraction(t) for t in line.split()]


class Toks:
    """Reader for a model output line."""

    def __init__(self, line: str):
        self.t = line.split()
        self.i = 0

    def tok(self) -> str:
        v = self.t[self.i]
        self.i += 1
        return v

    def rat(self) -> Fraction:
        return Fraction(self.tok())

    def int(self) -> int:
        return int(self.tok())

    def list(self):
        n = self.int()
        return [self.rat() for _ in range(n)]

    def mat(self):
        r, c = self.int(), self.int()
        return [[self.rat() for _ in range(c)] for _ in range(r)]

    def done(self) -> bool:
        return self.i == len(self.t)


def close(a, b, tol=1e-9) -> bool:
    a, b = float(a), float(b)
    if a != a or b != b:
        return False
    return abs(a - b) <= tol * max(1.0, abs(a), abs(b))


# ----------------------------------------------------------------------------- lean side
class LeanSide:
    def __init__(self, log):
        self.log = log

    def _lock(self):
        f = open(LEAN / ".verif.lock", "w")
        fcntl.flock(f, fcntl.LOCK_EX)
        return f

    def build(self, targets, timeout=3000):
        """lake build; returns (ok, output)."""
        lock = self._lock()
        try:
            p = subprocess.run(
                ["lake", "build", *targets],
                cwd=LEAN,
                capture_output=True,
                text=True,
                timeout=timeout,
            )
            return p.returncode == 0, p.stdout + p.stderr
        finally:
            lock.close()

    def audit(self, module, timeout=900):
        """Returns list of (theorem, [axioms]) for theorems declared in `module`."""
        src = f"import {module}\nimport RV.AuditCmd\n#audit_module {module}\n"
        tmp = LEAN / f".audit_{module.replace('.', '_')}_{os.getpid()}.lean"
        tmp.write_text(src)
        try:
            p = subprocess.run(
                ["lake", "env", "lean", str(tmp)], cwd=LEAN, capture_output=True, text=True, timeout=timeout
            )
        finally:
            tmp.unlink(missing_ok=True)
        out = []
        for line in p.stdout.splitlines():
            m = re.match(r"AUDIT (\S+) :: ?(.*)$", line)
            if m and m.group(1).startswith(("RV.Props.", "RV.Bridge.")):
                out.append((m.group(1), m.group(2).split()))
        return p.returncode == 0 and "AUDIT-COUNT" in p.stdout, out, p.stdout + p.stderr

    def rv_closure(self, modules):
        """the RV.* modules reachable from `modules` through imports (the generated constants included)"""
        seen, todo = [], list(modules)
        while todo:
            m = todo.pop()
            if m in seen:
                continue
            f = LEAN / (m.replace(".", "/") + ".lean")
            if not f.exists():
                continue
            seen.append(m)
            for line in f.read_text().splitlines():
                mm = re.match(r"\s*import\s+(RV(?:\.\w+)*)\s*$", line)
                if mm:
                    todo.append(mm.group(1))
        return sorted(seen)

    def leanchecker(self, modules, timeout=3000):
        p = subprocess.run(["lake", "env", "leanchecker", *modules], cwd=LEAN, capture_output=True, text=True, timeout=timeout)
        return p.returncode == 0, p.stdout + p.stderr

    def grep_forbidden(self, files):
        hits = []
        for f in files:
            txt = Path(f).read_text()
            # drop block comments and line comments
            txt2 = re.sub(r"/-.*?-/", lambda m: "\n" * m.group(0).count("\n"), txt, flags=re.S)
            txt2 = re.sub(r"--.*", "", txt2)
            for m in FORBIDDEN.finditer(txt2):
                hits.append(f"{f}:{txt2[:m.start()].count(chr(10)) + 1}:{m.group(0)}")
        return hits

    def run_model(self, lines, timeout=3000):
        """Pipe op lines through the driver; returns list of output lines (or None)."""
        if not lines:
            return []
        data = "\n".join(lines) + "\n"
        p = subprocess.run(
            ["lake", "env", "lean", "--run", "Driver.lean"],
            cwd=LEAN,
            input=data,
            capture_output=True,
            text=True,
            timeout=timeout,
        )
        outs = p.stdout.splitlines()
        if p.returncode != 0 or len(outs) != len(lines):
            self.log(f"driver failed rc={p.returncode} got {len(outs)} of {len(lines)} lines\n{p.stderr[-2000:]}")
            return None
        return outs


# ----------------------------------------------------------------------------- the run
class Run:
    def __init__(self, pid: str, modules, model_files, technique: str, trusted_extra=None):
        ap = argparse.ArgumentParser()
        ap.add_argument("--tier", default=os.environ.get("VERIF_TIER", "quick"), choices=["quick", "thorough"])
        ap.add_argument("--replay", default=None)
        ap.add_argument("--no-lean", action="store_true", help="development only: skip build and audit")
        self.args = ap.parse_args()
        self.pid = pid
        self.tier = self.args.tier
        self.seed = int(os.environ.get("VERIF_SEED", "20260929"))
        self.rng = random.Random(self.seed)
        self.modules = modules
        self.model_files = model_files
        self.technique = technique
        self.t0 = time.time()
        self.logs = []
        self.lean = LeanSide(self.log)
        # measured coverage
        self.evaluations = 0
        self.nontrivial = set()
        self.samples = []
        self.hist = {}
        self.worst = {}
        self.boundary_skips = 0
        self.model_compared = 0
        # findings of this run
        self.oracle_failures = []  # (key, case, what)
        self.disagreements = []  # (op, case, impl, model)
        self.broken = []  # (kind, name, detail)
        self.obligations = []
        self.discharged = []
        self.known_printed = []
        self.trusted_extra = trusted_extra or []
        self.notes = []

    # ------------------------------------------------------------------ utilities
    def log(self, msg):
        self.logs.append(msg)
        print(f"[{self.pid}] {msg}", file=sys.stderr, flush=True)

    def quick(self) -> bool:
        return self.tier == "quick"

    def n(self, quick: int, thorough: int) -> int:
        return quick if self.tier == "quick" else thorough

    def count(self, key: str, k: int = 1):
        self.hist[key] = self.hist.get(key, 0) + k

    def worse(self, key: str, err: float):
        if err > self.worst.get(key, -1.0):
            self.worst[key] = err

    def case(self, op: str, case, nontrivial: bool, branch: str | None = None):
        """Register one evaluated case for the coverage figures."""
        self.evaluations += 1
        self.count(f"op:{op}")
        if branch:
            self.count(f"branch:{branch}")
        if nontrivial:
            h = hashlib.sha1(json.dumps([op, case], sort_keys=True, default=str).encode()).hexdigest()
            self.nontrivial.add(h)
        if len(self.samples) < 6 and (nontrivial or self.evaluations < 3):
            self.samples.append({"op": op, "case": case})

    def fail(self, key: str, case, what: str):
        """The real code violates the property on a concrete input."""
        if "harness-glue:" in str(what):
            # the harness could not drive the code (no frame of the exception is inside resonaate): a broken tie, not a failing input
            self.disagree("harness-glue", case, what, "-")
            return
        if len(self.oracle_failures) < 50:
            self.oracle_failures.append((key, case, what))

    def disagree(self, op: str, case, impl, model):
        if len(self.disagreements) < 50:
            self.disagreements.append((op, case, str(impl)[:2000], str(model)[:2000]))

    # ------------------------------------------------------------------ lean phase
    def lean_phase(self):
        if self.args.no_lean:
            self.notes.append("lean phase skipped (--no-lean, development only)")
            return
        t = time.time()
        try:
            from extract import regenerate

            msgs = regenerate()
            for m in msgs:
                self.log(f"extract: {m}")
        except Exception as e:  # extractor failure = a broken tie, handled like a broken proof
            self.broken.append(("extractor", "harness/extract.py", f"{type(e).__name__}: {e}"))
        ok, out = self.lean.build(["RV.AuditCmd", "RV.Drive.All", *self.modules])
        if not ok:
            # find which module failed
            failed = re.findall(r"error: (RV/[\w/]+\.lean:\d+:\d+: .*)", out)
            self.broken.append(("lake-build", ",".join(self.modules), "\n".join(failed[:10]) or out[-3000:]))
            # driver may still be usable if only a Props module failed
            ok2, _ = self.lean.build(["RV.Drive.All"])
            self.driver_ok = ok2
        else:
            self.driver_ok = True
        for mod in self.modules:
            okb, _ = (True, "") if ok else self.lean.build([mod])
            if not okb:
                self.obligations.append((f"{mod}.*", ["<does not compile>"]))
                continue
            oka, thms, out = self.lean.audit(mod)
            if not oka:
                self.broken.append(("audit", mod, out[-2000:]))
            for name, axs in thms:
                self.obligations.append((name, axs))
                bad = [a for a in axs if a not in ALLOWED_AXIOMS]
                if bad:
                    self.broken.append(("axioms", name, " ".join(bad)))
                else:
                    self.discharged.append(name)
        # every RV module the theorem modules depend on (models, proof libraries): scanned for forbidden tokens too,
        # and in the thorough tier re-checked from the compiled .olean files by the toolchain's independent checker
        deps = self.lean.rv_closure(self.modules)
        files = [LEAN / (m.replace(".", "/") + ".lean") for m in deps] + [LEAN / f for f in self.model_files]
        if self.tier == "thorough" and ok:
            okc, outc = self.lean.leanchecker(deps)
            self.notes.append(f"leanchecker re-checked {len(deps)} modules: {'ok' if okc else 'FAILED'}")
            if not okc:
                self.broken.append(("leanchecker", ",".join(self.modules), outc[-2000:]))
        hits = self.lean.grep_forbidden([f for f in files if f.exists()])
        for h in hits:
            self.broken.append(("forbidden-token", h, ""))
        self.log(f"lean phase {time.time() - t:.1f}s: {len(self.discharged)}/{len(self.obligations)} theorems, broken={len(self.broken)}")

    def model(self, lines):
        if not getattr(self, "driver_ok", True):
            return None
        try:
            return self.lean.run_model(lines)
        except subprocess.TimeoutExpired:
            self.log("driver timeout")
            return None

    # ------------------------------------------------------------------ known findings
    def known(self):
        f = VERIF / "known_findings.json"
        if not f.exists():
            return []
        return [k for k in json.loads(f.read_text()).get("findings", []) if k["property"] == self.pid and k.get("status") == "open"]

    # ------------------------------------------------------------------ finish
    def finish(self, search=None):
        """Decide the verdict, write evidence, print VIOLATION / KNOWN-FINDING lines, exit."""
        violations = []
        known = self.known()
        unknown_fail = []
        for key, case, what in self.oracle_failures:
            k = next((k for k in known if k["key"] == key), None)
            if k:
                if key not in self.known_printed:
                    print(f"KNOWN-FINDING: property={self.pid} {k['what']}")
                    self.known_printed.append(key)
            else:
                unknown_fail.append((key, case, what))
        (VERIF / "replays").mkdir(exist_ok=True)
        if not self.args.replay:
            for old in (VERIF / "replays").glob(f"{self.pid}-{self.seed}-*.json"):
                old.unlink()
        if unknown_fail:
            key, case, what = unknown_fail[0]
            path = VERIF / "replays" / f"{self.pid}-{self.seed}-input.json"
            path.write_text(
                json.dumps(
                    {
                        "property": self.pid,
                        "kind": "failing-input",
                        "key": key,
                        "case": case,
                        "what": what,
                        "others": [{"key": k, "case": c, "what": w} for k, c, w in unknown_fail[1:10]],
                        "broken_obligations": [[str(x)[:600] for x in b] for b in self.broken[:10]],
                        "replay_cmd": f"./check {self.pid} --replay {path}",
                    },
                    indent=1,
                    default=str,
                )
            )
            violations.append((str(path), ""))
        elif self.broken or self.disagreements:
            found = None
            if search is not None:
                self.log("tie broken (proof or correspondence): searching the real code for a failing input")
                try:
                    found = search(self)
                except Exception as e:
                    self.log(f"search raised {type(e).__name__}: {e}")
                    found = None
            if found and "harness-glue:" in str(found[2]):
                self.log("search could not drive the code either (harness glue)")
                found = None
            if found and any(k["key"] == found[0] for k in known):
                # the search met only a listed finding: that is not the failing input of this broken tie
                self.log(f"search met only the known finding {found[0]}")
                found = None
            if found:
                key, case, what = found
                path = VERIF / "replays" / f"{self.pid}-{self.seed}-input.json"
                path.write_text(
                    json.dumps(
                        {"property": self.pid, "kind": "failing-input", "key": key, "case": case, "what": what,
                         "broken": [list(b) for b in self.broken[:5]],
                         "correspondence_disagreements": [{"op": o, "case": c, "impl": i, "model": m} for o, c, i, m in self.disagreements[:10]],
                         "replay_cmd": f"./check {self.pid} --replay {path}"},
                        indent=1, default=str,
                    )
                )
                violations.append((str(path), ""))
            else:
                path = VERIF / "replays" / f"{self.pid}-{self.seed}-unproved.json"
                path.write_text(
                    json.dumps(
                        {
                            "property": self.pid,
                            "kind": "tie-broken",
                            "broken_obligations": [list(b) for b in self.broken[:20]],
                            "correspondence_disagreements": [
                                {"op": o, "case": c, "impl": i, "model": m} for o, c, i, m in self.disagreements[:10]
                            ],
                            "note": "no input was found on which the real code violates the property; the property is no longer shown to hold",
                        },
                        indent=1,
                        default=str,
                    )
                )
                violations.append((str(path), " no-failing-input-found"))
        self.write_evidence(len(violations))
        for path, suffix in violations:
            print(f"VIOLATION property={self.pid} replay={path}{suffix}")
        sys.stdout.flush()
        sys.exit(1 if violations else 0)

    def write_evidence(self, nviol: int):
        (VERIF / "evidence").mkdir(exist_ok=True)
        ev = {
            "property_id": self.pid,
            "tier": self.tier,
            "seed": self.seed,
            "level": "proof",
            "coverage": {
                "obligations": max(1, len(self.obligations)),
                "discharged": len(self.discharged),
                "theorems": [n for n, _ in self.obligations],
                "axioms_used": sorted({a for _, axs in self.obligations for a in axs}),
                "checker_cmd": f"cd lean && lake build {' '.join(self.modules)} && lake env lean <audit: #audit_module per module>",
                "trusted_base": [
                    "Lean 4.33.0 kernel",
                    "axioms: propext, Classical.choice, Quot.sound (no native_decide / bv_decide / sorry)",
                    "Lean interpreter running the model in Driver.lean",
                    "harness/common.py + this property's harness: same inputs to both sides, faithful canonicalisation",
                    *self.trusted_extra,
                    *(["harness/py2lean.py: the translator that regenerates lean/RV/Generated/*.lean from /repo on every run (typed Python subset; library "
                       "calls mapped to the primitives of RV/Num/Py.lean and RV/Num/F64.lean; geometry helpers and object attributes enter as parameters); "
                       "bridge theorems in " + ", ".join(m for m in self.modules if m.startswith("RV.Bridge.")) + " tie the translated definitions to the model"]
                      if any(m.startswith("RV.Bridge.") for m in self.modules) else []),
                ],
                "evaluations": self.evaluations,
                "distinct_nontrivial": len(self.nontrivial),
                "rule": getattr(self, "rule", ""),
                "samples": self.samples[:6] or [{"note": "no cases generated"}],
                "traces_validated_against_impl": self.model_compared,
                "disagreements_checked": len(self.disagreements),
                "histogram": dict(sorted(self.hist.items())),
                "worst_numeric_error": self.worst,
                "boundary_skips": self.boundary_skips,
                "broken": [list(b) for b in self.broken[:10]],
                "technique": self.technique,
                "notes": self.notes,
            },
            "assumptions": getattr(self, "assumptions", []),
            "wall_s": round(time.time() - self.t0, 2),
            "violations": nviol,
        }
        (VERIF / "evidence" / f"{self.pid}.json").write_text(json.dumps(ev, indent=1, default=str))


GLUE = "harness-glue:"


def guarded(fn, *a, **k):
    """Run the real code; map exceptions to a small enum so both sides can be compared."""
    try:
        return ("ok", fn(*a, **k))
    except Exception as e:  # noqa: BLE001
        # where was it raised?  An exception with no frame inside the resonaate sources comes from the harness's own glue
        # (a helper it reaches for was renamed, a signature changed): that breaks the tie, it is not a failing input.
        import traceback

        frames = traceback.extract_tb(e.__traceback__)
        in_repo = [f for f in frames if "/resonaate/" in f.filename and "/harness/" not in f.filename]
        if in_repo:
            return ("err", type(e).__name__)
        last = frames[-1] if frames else None
        where = f"{Path(last.filename).name}:{last.lineno}" if last else "?"
        return ("err", f"{GLUE}{type(e).__name__} at {where}: {str(e)[:200]}")


def corpus(pid: str):
    d = VERIF / "corpus" / pid
    if not d.exists():
        return []
    out = []
    for f in sorted(d.glob("*.json")):
        out.extend(json.loads(f.read_text()))
    return out


def main_guard(fn):
    """Infrastructure errors and timeouts exit 2 without a VIOLATION line."""
    try:
        fn()
    except SystemExit:
        raise
    except subprocess.TimeoutExpired as e:
        print(f"timeout: {e}", file=sys.stderr)
        sys.exit(2)
    except Exception:
        traceback.print_exc()
        sys.exit(2)
