"""Builders for small real scenarios (real Ray, real agents, real engines) shared by C08, C09, C10, C15, C11.

Everything here drives the real code; the only intervention is the completion-order controller, which
replaces `ray.wait` *in the driver process* inside `resonaate.parallel` by a function that waits for all
outstanding references and then names the one a permutation selects (DESIGN.md 3.3).
"""
from __future__ import annotations

import contextlib
import math
import os
import tempfile
from datetime import datetime, timedelta

import numpy as np

ISO = "%Y-%m-%dT%H:%M:%S.%fZ"


def iso(dt: datetime) -> str:
    return dt.strftime("%Y-%m-%dT%H:%M:%S.") + f"{dt.microsecond // 1000:03d}Z"


RADAR_COV = [[3.0461741978670863e-12, 0, 0, 0], [0, 3.0461741978670863e-12, 0, 0], [0, 0, 2.5e-11, 0], [0, 0, 0, 4.0e-12]]


def radar_cfg(sid, lat, lon, alt=0.1, name=None, az=(0.0, 359.99999), el=(1.0, 89.99999), slew=5.0, fov=None, adv=False, bg=False):
    sensor = {
        "type": "adv_radar" if adv else "radar", "covariance": RADAR_COV, "slew_rate": slew, "azimuth_range": list(az), "elevation_range": list(el),
        "efficiency": 0.95, "aperture_diameter": 26.0, "tx_power": 2.5e6, "tx_frequency": 1.5e9, "min_detectable_power": 3.57e-19,
        "background_observations": bg,
    }
    if fov is not None:
        sensor["field_of_view"] = fov
    return {"name": name or f"radar{sid}", "id": sid, "platform": {"type": "ground_facility"},
            "state": {"type": "lla", "latitude": lat, "longitude": lon, "altitude": alt}, "sensor": sensor}


def optical_cfg(sid, lat, lon, alt=0.1, bg=False):
    return {"name": f"optical{sid}", "id": sid, "platform": {"type": "ground_facility"},
            "state": {"type": "lla", "latitude": lat, "longitude": lon, "altitude": alt},
            "sensor": {"type": "optical", "covariance": [[9.4e-11, 0], [0, 9.4e-11]], "slew_rate": 2.0, "azimuth_range": [0.0, 359.99999],
                       "elevation_range": [5.0, 89.99999], "efficiency": 0.99, "aperture_diameter": 3.6, "background_observations": bg}}


def target_cfg(tid, pos, vel, name=None):
    return {"name": name or f"sat{tid}", "id": tid, "platform": {"type": "spacecraft"},
            "state": {"type": "eci", "position": [float(x) for x in pos], "velocity": [float(x) for x in vel]}}


def circular_state(alt_km, inc_deg, raan_deg, u_deg):
    """ECI state of a circular orbit (two-body), argument of latitude u."""
    mu, re = 398600.4418, 6378.1363
    r = re + alt_km
    v = math.sqrt(mu / r)
    i, O, u = map(math.radians, (inc_deg, raan_deg, u_deg))
    rp = np.array([r * math.cos(u), r * math.sin(u), 0.0])
    vp = np.array([-v * math.sin(u), v * math.cos(u), 0.0])
    R = np.array([[math.cos(O), -math.sin(O) * math.cos(i), math.sin(O) * math.sin(i)],
                  [math.sin(O), math.cos(O) * math.cos(i), -math.cos(O) * math.sin(i)],
                  [0.0, math.sin(i), math.cos(i)]])
    return R @ rp, R @ vp


def engine_cfg(uid, targets, sensors, decision="MunkresDecision", reward="SimpleSummationReward", metrics=("TimeSinceObservation",), seed=None):
    dec = {"name": decision}
    if decision == "RandomDecision":
        dec["seed"] = seed if seed is not None else 1
    return {"unique_id": uid, "reward": {"name": reward, "metrics": [{"name": m, "parameters": {}} for m in metrics], "parameters": {}},
            "decision": dec, "targets": targets, "sensors": sensors}


def scenario_cfg(start: datetime, dt: int, span: int, engines, out_step=None, truth_only=False, seed=12345, events=(), prop="two_body",
                 filt="unscented_kalman_filter", noise_seed=None, target_realtime=True, sensor_realtime=True, background=False, sp_opts=None):
    cfg = {
        "time": {"start_timestamp": iso(start), "physics_step_sec": dt, "output_step_sec": out_step or dt, "stop_timestamp": iso(start + timedelta(seconds=span))},
        "noise": {"init_position_std_km": 1e-3, "init_velocity_std_km_p_sec": 1e-6, "filter_noise_type": "continuous_white_noise",
                  "filter_noise_magnitude": 3.0e-14, "random_seed": seed if noise_seed is None else noise_seed},
        "propagation": {"propagation_model": prop, "integration_method": "RK45", "station_keeping": False, "target_realtime_propagation": target_realtime,
                        "sensor_realtime_propagation": sensor_realtime, "truth_simulation_only": truth_only},
        "geopotential": {"model": "egm96.txt", "degree": 2, "order": 0},
        "perturbations": {"third_bodies": [], "solar_radiation_pressure": False, "general_relativity": False},
        "estimation": {"sequential_filter": {"name": filt, "parameters": {}, "dynamics_model": prop, "maneuver_detection": None}, "adaptive_filter": None},
        "observation": {"background": background},
        "engines": engines,
        "events": list(events),
    }
    if sp_opts:
        cfg.update(sp_opts)
    return cfg


_RAY = {"up": False}
_TMPDIRS = []


def cleanup():
    import shutil

    while _TMPDIRS:
        shutil.rmtree(_TMPDIRS.pop(), ignore_errors=True)


def ensure_ray(num_cpus=4):
    import ray

    if not ray.is_initialized():
        ray.init(num_cpus=num_cpus, include_dashboard=False, log_to_driver=False, logging_level="ERROR")
    _RAY["up"] = True


def build(cfg, db_path=None, importer_db_path=None):
    """Build a real Scenario from a config dict. Returns (scenario, db_path)."""
    import logging

    from resonaate.scenario import buildScenarioFromConfigDict

    logging.getLogger("resonaate").setLevel(logging.CRITICAL)
    ensure_ray()
    if db_path is None:
        d = tempfile.mkdtemp(prefix="verif-scn-")
        _TMPDIRS.append(d)
        db_path = os.path.join(d, "out.sqlite3")
    try:
        from resonaate.data import clearDBPath

        clearDBPath()  # one shared database path per simulation: release the previous scenario's
    except Exception:  # noqa: BLE001
        pass
    app = buildScenarioFromConfigDict(cfg, internal_db_path=db_path, importer_db_path=importer_db_path)
    app._verif_db_path = db_path
    logging.getLogger("resonaate").setLevel(logging.CRITICAL)
    return app


class OrderController:
    """Chooses which finished job `JobExecutor.join` processes next."""

    def __init__(self, chooser):
        self.chooser = chooser  # callable(list_of_refs, batch_index) -> index into the list
        self.batches = 0
        self.log = []

    def wait(self, refs, **kw):
        import ray

        refs = list(refs)
        ray._verif_real_wait(refs, num_returns=len(refs))
        k = self.chooser(len(refs), self.batches)
        self.batches += 1
        self.log.append((len(refs), k))
        chosen = refs[k]
        return [chosen], [r for r in refs if r is not chosen]


@contextlib.contextmanager
def completion_order(chooser):
    """Within the block, `resonaate.parallel` sees a `ray` whose `wait` is controlled."""
    import ray

    import resonaate.parallel as par

    if not hasattr(ray, "_verif_real_wait"):
        ray._verif_real_wait = ray.wait
    ctl = OrderController(chooser)

    class _RayProxy:
        def __getattr__(self, name):
            if name == "wait":
                return ctl.wait
            return getattr(ray, name)

    old = par.ray
    par.ray = _RayProxy()
    try:
        yield ctl
    finally:
        par.ray = old


def reseed_noise(seed):
    """Make measurement noise reproducible per call site: the sensors draw from numpy's global-free generators created at
    construction, so the harness seeds through the config (`random_seed`) and compares observations up to their noise."""
    return seed


def tmp_db():
    d = tempfile.mkdtemp(prefix="verif-scn-")
    _TMPDIRS.append(d)
    return os.path.join(d, "out.sqlite3")
