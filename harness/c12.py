"""C12 - orbital element sets, anomalies and state configurations convert consistently."""
from __future__ import annotations

import json
import math
import sys
from datetime import datetime
from fractions import Fraction
from pathlib import Path

sys.path.insert(0, str(Path(__file__).resolve().parent))
import numpy as np
from common import Run, corpus, fmt, frac, guarded, main_guard

PID = "C12"
MU = 398600.4415  # Earth.mu (checked against the code in impl_run)
TAU = 2 * math.pi



def asked_twice(cfg):
    """the state a configuration describes, asked for a second time after the caller has worked on the first answer in place
    (an agent adds its initial error to the array it was given): the configuration still describes the same orbit"""
    first = cfg.toECI(datetime(2021, 1, 1))
    try:
        first += 1000.0
    except (TypeError, ValueError):  # an immutable answer is fine too
        pass
    return cfg.toECI(datetime(2021, 1, 1))


def cases(run: Run):
    rng = run.rng
    out = list(corpus(PID))
    lim_i = 1e-7 * math.pi / 180
    seam = [0.0, 1e-9, math.pi / 2, math.pi, math.pi - 1e-9, 3 * math.pi / 2, TAU - 1e-9]
    for _ in range(run.n(600, 8000)):
        kind = rng.choice(["generic", "generic", "generic", "circular", "equatorial", "circular-equatorial", "retro-equatorial", "threshold", "retrograde", "seam"])
        a = rng.choice([6600.0, 7000.0, 26600.0, 42164.0, 50000.0, rng.uniform(6600, 50000)])
        e = rng.choice([1e-5, 1e-3, 0.1, 0.7, 0.89, rng.uniform(1e-6, 0.9)])
        i = rng.uniform(1e-3, math.pi - 1e-3)
        ang = lambda: rng.choice(seam) if (kind == "seam" or rng.random() < 0.15) else rng.uniform(0, TAU)
        O, w, nu = ang(), ang(), ang()
        if kind in ("circular", "circular-equatorial"):
            e = rng.choice([0.0, 0.5e-7, 0.99e-7, 1e-9])
        if kind in ("equatorial", "circular-equatorial"):
            i = rng.choice([0.0, lim_i * 0.5, lim_i * 0.99, 1e-12])
        if kind == "retro-equatorial":
            i = rng.choice([math.pi, math.pi - lim_i * 0.5, math.pi - 1e-12])
            e = rng.choice([e, e, 0.0, 0.5e-7])
        if kind == "retrograde":
            i = rng.choice([math.pi - 0.3, math.pi - 1e-3, math.pi - 1e-5, 2.0, math.pi / 2, rng.uniform(math.pi / 2, math.pi - 1e-4)])
        if kind == "threshold":
            e = rng.choice([0.99e-7, 1e-7, 1.01e-7, 2e-7, 1e-6, e])
            i = rng.choice([lim_i * 0.99, lim_i, lim_i * 1.01, lim_i * 3, 1e-6, math.pi - lim_i * 1.01, math.pi - lim_i, math.pi - lim_i * 3, math.pi - 1e-6, i])
        out.append({"kind": kind, "a": a, "e": e, "i": i, "O": O, "w": w, "nu": nu, "M": ang(), "h": rng.uniform(-0.6, 0.6), "k": rng.uniform(-0.6, 0.6)})
    return out


# ----------------------------------------------------------------------------- an independent description of the same orbit
def ref_state(a, e, i, O, w, nu):
    """textbook Gaussian-vector form (P, Q built from the three angles directly)"""
    p = a * (1 - e * e)
    r = p / (1 + e * math.cos(nu))
    cO, sO, ci, si, cw, sw = math.cos(O), math.sin(O), math.cos(i), math.sin(i), math.cos(w), math.sin(w)
    if i == 0.0 or i == math.pi:
        si = 0.0  # exactly equatorial: the orbit lies exactly in the xy plane (sin(pi) in floats is 1.2e-16)
    P = np.array([cw * cO - sw * ci * sO, cw * sO + sw * ci * cO, sw * si])
    Q = np.array([-sw * cO - cw * ci * sO, -sw * sO + cw * ci * cO, cw * si])
    return np.concatenate([r * (math.cos(nu) * P + math.sin(nu) * Q), math.sqrt(MU / p) * (-math.sin(nu) * P + (e + math.cos(nu)) * Q)])


def circ(a, b):
    return abs((a - b + math.pi) % TAU - math.pi)


class WrapSpy:
    """records the arguments for which wrapAngle2Pi returned a full turn (the float sum x + 2pi of a negative x below the spacing of 2pi)"""

    MODULES = ("resonaate.physics.orbits", "resonaate.physics.orbits.utils", "resonaate.physics.orbits.anomaly", "resonaate.physics.orbits.conversions",
               "resonaate.physics.orbits.elements")

    def __enter__(self):
        import importlib

        from resonaate.physics import maths

        self.hits = []
        orig = maths.wrapAngle2Pi

        def spy(x):
            y = orig(x)
            if y >= TAU:
                self.hits.append(float(x))
            return y

        self.saved = []
        for name in self.MODULES:
            m = importlib.import_module(name)
            if getattr(m, "wrapAngle2Pi", None) is orig:
                self.saved.append((m, orig))
                m.wrapAngle2Pi = spy
        return self

    def __exit__(self, *a):
        for m, orig in self.saved:
            m.wrapAngle2Pi = orig


def impl_run(c):
    with WrapSpy() as spy:
        out = impl_run_inner(c)
    # full turns that wrapAngle2Pi itself produced from a tiny negative argument (known finding); anything else at 2pi is not explained by it
    out["wrap_full_turns"] = [x for x in spy.hits if -1e-15 < math.fmod(x, TAU) < 0.0]
    out["wrap_other_full_turns"] = [x for x in spy.hits if not (-1e-15 < math.fmod(x, TAU) < 0.0)]
    return out


def impl_run_inner(c):
    from resonaate.physics.orbits import ECCENTRICITY_LIMIT, INCLINATION_LIMIT, isEccentric, isInclined
    from resonaate.physics.orbits import anomaly as an
    from resonaate.physics.orbits import utils as ut
    from resonaate.physics.orbits.conversions import coe2eci, coe2eqe, eci2coe, eci2eqe, eqe2coe, eqe2eci
    from resonaate.physics.orbits.elements import ClassicalElements, EquinoctialElements
    from resonaate.scenario.config.state_config import COEStateConfig, ECIStateConfig, EQEStateConfig

    from resonaate.physics.bodies import Earth

    assert float(Earth.mu) == MU, "Earth.mu changed: update MU"
    a, e, i, O, w, nu = c["a"], c["e"], c["i"], c["O"], c["w"], c["nu"]
    x = ref_state(a, e, i, O, w, nu)
    out = {"x": [float(v) for v in x], "limI": float(INCLINATION_LIMIT), "limE": float(ECCENTRICITY_LIMIT)}
    out["coe2eci"] = [float(v) for v in coe2eci(a, e, i, O, w, nu)]
    el = eci2coe(x)
    out["el"] = [float(v) for v in el]
    out["flags"] = [bool(isInclined(float(el[2]))), bool(isEccentric(float(el[1])))]
    out["rt_coe"] = [float(v) for v in coe2eci(*el)]
    # what the helper functions measured (inputs of the model's branch logic)
    pos, vel = x[:3], x[3:]
    hvec = ut.getAngularMomentum(pos, vel)
    ecc_, evec = ut.getEccentricity(pos, vel)
    nvec = ut.getLineOfNodes(hvec)
    nn = float(np.linalg.norm(nvec))
    nunit = nvec / nn if not abs(nn) < np.finfo(float).resolution else nvec
    out["measured"] = {}
    for name, fn in (("raan", lambda: ut.getRightAscension(nunit)), ("argp", lambda: ut.getArgumentPerigee(evec, nunit)), ("anom", lambda: ut.getTrueAnomaly(pos, vel, evec)),
                     ("lonPer", lambda: ut.getTrueLongitudePeriapsis(evec)), ("argLat", lambda: ut.getArgumentLatitude(pos, nunit)), ("trueLon", lambda: ut.getTrueLongitude(pos))):
        try:
            v = float(fn())
            out["measured"][name] = v if math.isfinite(v) else 0.0
        except Exception:  # noqa: BLE001  (degenerate vectors: the branch does not use the value)
            out["measured"][name] = 0.0
    out["pieces"] = {"rn": float(np.linalg.norm(pos)), "vn": float(np.linalg.norm(vel)), "sma": float(ut.getSemiMajorAxis(np.linalg.norm(pos), np.linalg.norm(vel))),
                     "eccvec": [float(v) for v in (ecc_ * evec if abs(ecc_) >= np.finfo(float).resolution else evec)], "h": [float(v) for v in hvec], "n": [float(v) for v in nvec]}
    # equinoctial, direct and retrograde sets
    out["eqe"] = {}
    for retro in (False, True):
        if (retro and i < 1e-3) or (not retro and i > math.pi - 1e-3):
            continue  # the set that is singular for this orbit
        q = eci2eqe(x, retro=retro)
        rec = {"q": [float(v) for v in q], "rt": [float(v) for v in eqe2eci(*q, retro=retro)]}
        rec["from_coe"] = [float(v) for v in eqe2eci(*coe2eqe(*el, retro=retro), retro=retro)]
        rec["to_coe"] = [float(v) for v in coe2eci(*eqe2coe(*q, retro=retro))]
        rec["to_coe_el"] = [float(v) for v in eqe2coe(*q, retro=retro)]
        # the element class: built from a state / from classical elements with the same choice of set, and asked for the state back
        rec["cls_eci"] = [float(v) for v in EquinoctialElements.fromECI(x, retro=retro).toECI()]
        rec["cls_coe"] = [float(v) for v in EquinoctialElements.fromCOE(*el, retro=retro).toECI()]
        hv = np.asarray(hvec) / np.linalg.norm(hvec)
        f_hat, g_hat = ut.getEquinoctialBasisVectors(q[3], q[4], retro=retro)
        rec["basis"] = [float(v) for v in f_hat] + [float(v) for v in g_hat]
        rec["w"] = [float(v) for v in hv]
        F = float(an.meanLong2EccLong(q[5], q[1], q[2]))
        rec["F"] = F
        rec["lam_back"] = float(an.eccLong2MeanLong(F, q[1], q[2]))
        # configuration: the same orbit as an EQE config
        cfg = EQEStateConfig(semi_major_axis=float(q[0]), h=float(q[1]), k=float(q[2]), p=float(q[3]), q=float(q[4]), mean_longitude=float(math.degrees(q[5]) % 360.0), retrograde=retro)
        rec["cfg"] = [float(v) for v in asked_twice(cfg)]
        out["eqe"]["retro" if retro else "direct"] = rec
    # singularityCheck on the angles as given
    inclined, eccentric = bool(isInclined(i)), bool(isEccentric(e))
    out["given_flags"] = [inclined, eccentric]
    out["sing"] = [float(v) for v in ut.singularityCheck(e, i, O, w, nu)]
    out["cls"] = [float(v) for v in ClassicalElements(a, e, i, O, w, nu).toECI()]
    # anomalies
    ee = max(e, 0.0)
    E = float(an.trueAnom2EccAnom(nu, ee))
    M = float(an.eccAnom2MeanAnom(E, ee))
    out["anom"] = {"E": E, "M": M, "nu_back": float(an.eccAnom2TrueAnom(E, ee)), "E_back": float(an.meanAnom2EccAnom(M, ee)), "M_direct": float(an.trueAnom2MeanAnom(nu, ee)),
                   "nu_from_M": float(an.meanAnom2TrueAnom(M, ee)), "E_of_M": float(an.meanAnom2EccAnom(c["M"], ee))}
    hh, kk = c["h"], c["k"]
    F2 = float(an.meanLong2EccLong(c["M"], hh, kk))
    out["anom"]["F_of_lam"] = F2
    out["anom"]["lam_back"] = float(an.eccLong2MeanLong(F2, hh, kk))
    # configurations: ECI and COE descriptions
    if float(np.linalg.norm(x[:3])) > float(Earth.radius) + 1.0:  # the configuration rejects positions inside the Earth
        out["cfg_eci"] = [float(v) for v in asked_twice(ECIStateConfig(position=[float(v) for v in x[:3]], velocity=[float(v) for v in x[3:]]))]
    deg = lambda v: float(math.degrees(v) % 360.0)
    kw = dict(semi_major_axis=a, eccentricity=e, inclination=float(math.degrees(i)))
    if inclined and eccentric:
        kw.update(right_ascension=deg(O), argument_periapsis=deg(w), true_anomaly=deg(nu))
        target = x
    elif not inclined and eccentric:
        # an equatorial orbit is described by the true longitude of periapsis (node at +x)
        kw.update(true_longitude_periapsis=deg(w), true_anomaly=deg(nu))
        target = ref_state(a, e, i, 0.0, w, nu)
    elif inclined and not eccentric:
        kw.update(right_ascension=deg(O), argument_latitude=deg(nu))
        target = ref_state(a, e, i, O, 0.0, nu)
    else:
        kw.update(true_longitude=deg(nu))
        target = ref_state(a, e, i, 0.0, 0.0, nu)
    out["cfg_coe"] = [float(v) for v in asked_twice(COEStateConfig(**kw))]
    out["cfg_coe_target"] = [float(v) for v in target]
    # the same description carrying a second, consistent spelling of an angle (legal: the first complete field set counts), with the
    # angle of the first spelling exactly zero - a value, not an absence
    if inclined and deg(O) != 0.0:
        kz = dict(semi_major_axis=a, eccentricity=e, inclination=float(math.degrees(i)), right_ascension=deg(O))
        if eccentric:
            kz.update(argument_periapsis=0.0, true_anomaly=deg(nu), true_longitude_periapsis=deg(O))
            tz = ref_state(a, e, i, O, 0.0, nu)
        else:
            kz.update(argument_latitude=0.0, true_longitude=deg(O))
            tz = ref_state(a, e, i, O, 0.0, 0.0)
        try:
            out["cfg_coe_zero"] = [float(v) for v in asked_twice(COEStateConfig(**kz))]
            out["cfg_coe_zero_target"] = [float(v) for v in tz]
        except ValueError as ex:  # a validator that refuses two spellings is within its rights; a wrong state is not
            out["cfg_coe_zero_refused"] = str(ex)[:100]
    return out


def err(x, y, a):
    x, y = np.asarray(x), np.asarray(y)
    return float(np.linalg.norm(x[:3] - y[:3]) / a), float(np.linalg.norm(x[3:] - y[3:]) / np.linalg.norm(y[3:]))


def range_fail(o, fails, what, v):
    """an angle outside its range; exactly 2pi produced by wrapAngle2Pi's own rounding is the known finding, everything else is not"""
    if v == TAU and o.get("wrap_full_turns") and not o.get("wrap_other_full_turns"):
        fails.append(("range:wrap2pi-rounding", what + f" [wrapAngle2Pi({o['wrap_full_turns'][0]!r}) returned 2*pi]"))
    else:
        fails.append(("range", what))


def oracle(run: Run, c, impl):
    if impl[0] != "ok":
        return [("raises", f"{impl[1]} ({c['kind']}: a={c['a']}, e={c['e']}, i={c['i']}, raan={c['O']}, argp={c['w']}, nu={c['nu']})")]
    o = impl[1]
    a, e = c["a"], c["e"]
    desc = f"{c['kind']}: a={a:.3f} e={e:.3g} i={c['i']!r} raan={c['O']!r} argp={c['w']!r} nu={c['nu']!r}"
    fails = []
    x = o["x"]
    # an orbit within the limits of 'circular'/'equatorial' is reproduced to the resolution those limits define
    tol = 1e-9 + 4.0 * (o["limE"] if (not o["flags"][1] or e < 3 * o["limE"]) else 0.0) + 4.0 * (o["limI"] if (not o["flags"][0]) else 0.0)
    tol_gen = max(tol, 2e-7 if c["kind"] in ("seam",) or True else tol)  # arccos near 0/pi resolves angles to ~1.5e-8 rad only

    def chk(key, got, want=x, t=tol_gen):
        ep, ev = err(got, want, a)
        run.worse(key, max(ep, ev))
        if not (ep <= t and ev <= t):  # also catches NaN
            fails.append((key, f"{key}: position off by {ep * a:.6g} km ({ep:.3g} of a), velocity by {ev:.3g} relative ({desc})"))

    chk("coe2eci", o["coe2eci"], t=1e-12)
    chk("eci-coe-eci", o["rt_coe"])
    chk("ClassicalElements.toECI", o["cls"], t=max(1e-9, 4.0 * (o["limE"] if not o["given_flags"][1] else 0.0) + 4.0 * (o["limI"] if not o["given_flags"][0] else 0.0)))
    for name, rec in o["eqe"].items():
        chk(f"eci-eqe-eci:{name}", rec["rt"], t=1e-11)
        chk(f"coe-eqe:{name}", rec["from_coe"])
        chk(f"eqe-coe:{name}", rec["to_coe"])
        chk(f"EquinoctialElements.fromECI.toECI:{name}", rec["cls_eci"])
        chk(f"EquinoctialElements.fromCOE.toECI:{name}", rec["cls_coe"])
        chk(f"config:eqe:{name}", rec["cfg"], t=1e-11)
        lam = rec["q"][5]
        if not (0.0 <= lam < TAU):
            range_fail(o, fails, f"mean longitude {lam!r} outside [0, 2pi) ({desc})", lam)
        for k, v in zip(("raan", "argp", "true_anom"), rec["to_coe_el"][3:]):
            if not (0.0 <= v < TAU):
                range_fail(o, fails, f"eqe2coe {k} = {v!r} outside [0, 2pi) ({desc})", v)
        if circ(rec["lam_back"], lam) > 1e-9:
            fails.append(("kepler:eqe", f"mean longitude {lam!r} -> eccentric longitude {rec['F']!r} -> {rec['lam_back']!r} ({desc})"))
    if "cfg_eci" in o:
        chk("config:eci", o["cfg_eci"], t=0.0)
    chk("config:coe", o["cfg_coe"], want=o["cfg_coe_target"], t=1e-9)
    if "cfg_coe_zero" in o:
        chk("config:coe:zero-angle-two-spellings", o["cfg_coe_zero"], want=o["cfg_coe_zero_target"], t=1e-9)
    el = o["el"]
    if not (0.0 <= el[2] <= math.pi):
        fails.append(("range", f"inclination {el[2]!r} outside [0, pi] ({desc})"))
    for k, v in zip(("raan", "argp", "true_anom"), el[3:]):
        if not (0.0 <= v < TAU):
            range_fail(o, fails, f"eci2coe returned {k} = {v!r}, outside [0, 2pi) ({desc})", v)
    for k, v in zip(("raan", "argp", "anomaly"), o["sing"]):
        if not (0.0 <= v < TAU):
            range_fail(o, fails, f"singularityCheck returned {k} = {v!r}, outside [0, 2pi) ({desc})", v)
    if abs(el[0] - a) > 1e-9 * a or abs(el[1] - e) > 1e-9:
        fails.append(("elements", f"eci2coe recovered a={el[0]!r}, e={el[1]!r} ({desc})"))
    # anomalies
    an = o["anom"]
    ee = max(e, 0.0)
    ecc_on = ee >= o["limE"]
    if circ(an["nu_back"], c["nu"]) > 1e-9:
        fails.append(("anomaly:nu-E-nu", f"true anomaly {c['nu']!r} -> E {an['E']!r} -> {an['nu_back']!r} (e={ee})"))
    if circ(an["E_back"], an["E"]) > 1e-7:
        fails.append(("anomaly:E-M-E", f"E {an['E']!r} -> M {an['M']!r} -> {an['E_back']!r} (e={ee})"))
    if circ(an["nu_from_M"], c["nu"]) > 1e-6 / max(1e-3, 1 - ee):
        fails.append(("anomaly:nu-M-nu", f"true anomaly {c['nu']!r} -> M -> {an['nu_from_M']!r} (e={ee})"))
    if circ(an["M_direct"], an["M"]) > 1e-12:
        fails.append(("anomaly:M", f"trueAnom2MeanAnom {an['M_direct']!r} vs via E {an['M']!r}"))
    if ecc_on:
        resid = circ(an["E_of_M"] - ee * math.sin(an["E_of_M"]), c["M"])
        if not resid <= 1e-7:
            fails.append(("kepler", f"meanAnom2EccAnom({c['M']!r}, {ee}) = {an['E_of_M']!r}: Kepler's equation is off by {resid:.3g}"))
    hh, kk = c["h"], c["k"]
    if math.hypot(hh, kk) >= o["limE"]:
        resid = circ(an["F_of_lam"] + hh * math.cos(an["F_of_lam"]) - kk * math.sin(an["F_of_lam"]), c["M"])
        if not resid <= 1e-7:
            fails.append(("kepler:eqe", f"meanLong2EccLong({c['M']!r}, {hh}, {kk}) = {an['F_of_lam']!r}: the equinoctial Kepler equation is off by {resid:.3g}"))
    for k in ("E", "M", "nu_back", "E_back", "M_direct", "nu_from_M", "E_of_M", "F_of_lam", "lam_back"):
        if not (0.0 <= an[k] < TAU):
            range_fail(o, fails, f"anomaly conversion {k} returned {an[k]!r}, outside [0, 2pi)", an[k])
    return fails


# ----------------------------------------------------------------------------- model correspondence
def model_lines(c, o):
    a, e, i, O, w, nu = c["a"], c["e"], c["i"], c["O"], c["w"], c["nu"]
    cs = lambda t: (fmt(frac(float(np.cos(t)))), fmt(frac(float(np.sin(t)))))
    p = a * (1.0 - e**2)
    sq = float(np.sqrt(MU / p))
    L = []
    L.append(("coe2eci", "el.coe2eci " + " ".join([fmt(frac(a)), fmt(frac(e)), *cs(O), *cs(i), *cs(w), *cs(nu), fmt(frac(sq))])))
    L.append(("flags", f"el.flags {fmt(frac(o['limI']))} {fmt(frac(o['limE']))} {fmt(frac(o['el'][2]))} {fmt(frac(o['el'][1]))}"))
    gi, ge = o["given_flags"]
    L.append(("sing", f"el.sing {fmt(frac(i))} {int(gi)} {int(ge)} {fmt(frac(O))} {fmt(frac(w))} {fmt(frac(nu))}"))
    m = o["measured"]
    fi, fe = o["flags"]
    L.append(("eci2coe", f"el.eci2coe {fmt(frac(o['el'][2]))} {int(fi)} {int(fe)} " + " ".join(fmt(frac(m[k])) for k in ("raan", "argp", "anom", "lonPer", "argLat", "trueLon"))))
    pc = o["pieces"]
    st = " ".join(fmt(frac(v)) for v in o["x"])
    L.append(("sma", f"el.sma {fmt(frac(MU))} {fmt(frac(pc['rn']))} {fmt(frac(pc['vn']))}"))
    L.append(("eccvec", f"el.eccvec {fmt(frac(MU))} {st} {fmt(frac(pc['rn']))} {fmt(frac(pc['vn']))}"))
    L.append(("angmom", f"el.angmom {st}"))
    for name, rec in o["eqe"].items():
        retro = 1 if name == "retro" else 0
        q = rec["q"]
        L.append((f"basis:{name}", f"el.basis {fmt(frac(q[3]))} {fmt(frac(q[4]))} {retro}"))
        L.append((f"pq:{name}", "el.pq " + " ".join(fmt(frac(v)) for v in rec["w"]) + f" {retro}"))
        n = float(np.sqrt(MU / q[0] ** 3))
        beta = float(np.sqrt(1 - q[1] ** 2 - q[2] ** 2))
        L.append((f"eqe2eci:{name}", "el.eqe2eci " + " ".join(fmt(frac(v)) for v in q[:5]) + f" {retro} {fmt(frac(n))} {fmt(frac(beta))} {fmt(frac(float(np.cos(rec['F']))))} {fmt(frac(float(np.sin(rec['F']))))}"))
    return L


def close_vec(got, want, scale, rel=1e-11):
    return all(abs(float(g) - w) <= rel * scale + 1e-300 for g, w in zip(got, want))


def compare(run: Run, c, o, key, out):
    if out == "bad-op":
        run.disagree(key, c, "ok", out)
        return
    toks = out.split()
    if key == "coe2eci":
        got = [Fraction(t) for t in toks]
        if not (close_vec(got[:3], o["coe2eci"][:3], c["a"]) and close_vec(got[3:], o["coe2eci"][3:], 10.0)):
            run.disagree(key, c, str(o["coe2eci"]), str([float(g) for g in got]))
    elif key == "flags":
        want = f"{int(o['flags'][0])} {int(o['flags'][1])}"
        if out != want:
            run.disagree(key, c, want, out)
        else:
            # the branch eci2coe took, read off the elements it zeroed
            el = o["el"]
            if (not o["flags"][0] and el[3] != 0.0) or (o["flags"][0] and not o["flags"][1] and el[4] != 0.0) or (not o["flags"][0] and not o["flags"][1] and el[4] != 0.0):
                run.disagree("branch", c, str(el), out)
    elif key in ("sing", "eci2coe"):
        got = [float(Fraction(t)) for t in toks]
        want = o["sing"] if key == "sing" else o["el"][3:]
        # the measured angles are recomputed by the harness; arccos near 0/pi amplifies the last-bit differences of that recomputation to ~1.5e-8
        if any(circ(g, w_) > (1e-9 if key == "sing" else 1e-7) for g, w_ in zip(got, want)):
            run.disagree(key, c, str(want), str(got))
    elif key == "sma":
        if out == "raise" or abs(float(Fraction(out)) - o["pieces"]["sma"]) > 1e-9 * c["a"]:
            run.disagree(key, c, str(o["pieces"]["sma"]), out)
    elif key == "eccvec":
        got = [float(Fraction(t)) for t in toks]
        if not close_vec(got, o["pieces"]["eccvec"], 1.0, 1e-9):
            run.disagree(key, c, str(o["pieces"]["eccvec"]), str(got))
    elif key == "angmom":
        got = [float(Fraction(t)) for t in toks]
        hn = float(np.linalg.norm(o["pieces"]["h"]))
        if not (close_vec(got[:3], o["pieces"]["h"], hn) and close_vec(got[3:], o["pieces"]["n"], hn)):
            run.disagree(key, c, str(o["pieces"]["h"] + o["pieces"]["n"]), str(got))
    elif key.startswith("basis:"):
        rec = o["eqe"][key.split(":")[1]]
        got = [float(Fraction(t)) for t in toks]
        if not close_vec(got, rec["basis"], 1.0, 1e-12):
            run.disagree(key, c, str(rec["basis"]), str(got))
    elif key.startswith("pq:"):
        rec = o["eqe"][key.split(":")[1]]
        if out == "raise":
            run.disagree(key, c, str(rec["q"][3:5]), out)
        else:
            got = [float(Fraction(t)) for t in toks]
            sc = max(1.0, abs(rec["q"][3]), abs(rec["q"][4]))
            if not close_vec(got, rec["q"][3:5], sc, 1e-9):
                run.disagree(key, c, str(rec["q"][3:5]), str(got))
    elif key.startswith("eqe2eci:"):
        rec = o["eqe"][key.split(":")[1]]
        got = [float(Fraction(t)) for t in toks]
        if not (close_vec(got[:3], rec["rt"][:3], c["a"], 1e-10) and close_vec(got[3:], rec["rt"][3:], 10.0, 1e-10)):
            run.disagree(key, c, str(rec["rt"]), str(got))


def run_cases(run: Run, cs):
    impls = [guarded(impl_run, c) for c in cs]
    plan, lines = [], []
    for idx, (c, i) in enumerate(zip(cs, impls)):
        if i[0] == "ok":
            try:
                for key, l in model_lines(c, i[1]):
                    plan.append((idx, key))
                    lines.append(l)
            except (ValueError, OverflowError):  # NaN/inf in an implementation result: the oracle reports it
                pass
    outs = run.model(lines)
    if outs is not None:
        for (idx, key), out in zip(plan, outs):
            run.model_compared += 1
            compare(run, cs[idx], impls[idx][1], key, out)
    for c, i in zip(cs, impls):
        run.case("orbit", c, nontrivial=True, branch=c["kind"])
        if i[0] == "ok":
            run.count(f"branch:{int(i[1]['flags'][0])}{int(i[1]['flags'][1])}")
        for key, what in oracle(run, c, i):
            run.fail(key, c, what)


def search(run: Run):
    sub = Run.__new__(Run)
    sub.__dict__.update(run.__dict__)
    sub.rng = __import__("random").Random(run.seed + 61)
    sub.tier = "thorough"
    known = {k["key"] for k in run.known()}
    first_known = None
    for c in cases(sub)[:4000]:
        f = oracle(run, c, guarded(impl_run, c))
        new = [x for x in f if x[0] not in known]
        if new:
            return (new[0][0], c, new[0][1])
        if f and first_known is None:
            first_known = (f[0][0], c, f[0][1])
    return first_known


def main():
    run = Run(
        PID,
        ["RV.Props.C12", "RV.Bridge.Maths", "RV.Bridge.MathsProps"],
        ["RV/Model/Elements.lean"],
        "Lean 4 theorems (the state coe2eci builds has exactly the radius, speed, angular momentum, node line, eccentricity vector, semi-major axis and quadrant signs that eci2coe "
        "measures; branch structure, zeroed elements, ranges and longitude preservation of singularityCheck incl. retrograde equatorial orbits; orthonormal right-handed equinoctial "
        "frame, p/q inverse, h^2+k^2=e^2, radius from equinoctial elements; true/eccentric anomaly maps mutually inverse) + exact-rational correspondence of every modelled function "
        "with the real code + round trips of the real conversions, anomaly solvers and the three configuration descriptions",
        trusted_extra=[
            "arccos/arctan2/sqrt/norm are oracles: the theorems constrain them by their defining relations; that numpy's values satisfy those relations to rounding is assumed",
            "convergence of the Newton solvers (Kepler's equation, both forms) is evaluated on the real code only (residual <= 1e-7)",
        ],
    )
    run.rule = ("bound orbits a 6600-50000 km, e in [0, 0.9) with values straddling the circular limit 1e-7, i in [0, pi] with values straddling both equatorial limits, retrograde and "
                "retrograde-equatorial orbits, node/perigee/anomaly angles uniform and on the seams 0, pi/2, pi, 3pi/2, 2pi-1e-9; the same orbit as ECI, COE and EQE (direct and retrograde) configs")
    run.assumptions = ["state reproduced within 2e-7 relative (arccos resolves angles near 0/pi to ~1.5e-8 rad; orbits inside the circular/equatorial limits are reproduced to 4x the limit)"]
    run.lean_phase()
    if run.args.replay:
        rp = json.loads(Path(run.args.replay).read_text())
        cs = [rp["case"]] if rp.get("kind") == "failing-input" else cases(run)
    else:
        cs = cases(run)
    run_cases(run, cs)
    run.finish(search)


if __name__ == "__main__":
    main_guard(main)
