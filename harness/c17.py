"""C17 - maneuver detectors compute their documented statistic over any history."""
from __future__ import annotations

import copy
import json
import sys
from fractions import Fraction
from pathlib import Path

sys.path.insert(0, str(Path(__file__).resolve().parent))
import numpy as np
from common import Run, Toks, close, corpus, fmt, fmt_list, fmt_mat, frac, guarded, main_guard

PID = "C17"


def frac_inv(M):
    """Exact inverse by Gauss-Jordan over Fractions."""
    n = len(M)
    A = [[Fraction(x) for x in row] + [Fraction(int(i == j)) for j in range(n)] for i, row in enumerate(M)]
    for c in range(n):
        p = next(r for r in range(c, n) if A[r][c] != 0)
        A[c], A[p] = A[p], A[c]
        pv = A[c][c]
        A[c] = [x / pv for x in A[c]]
        for r in range(n):
            if r != c and A[r][c] != 0:
                f = A[r][c]
                A[r] = [x - f * y for x, y in zip(A[r], A[c])]
    return [row[n:] for row in A]


def gen_spd(rng, n, dense):
    """SPD matrix with dyadic entries: L D L^T with unit lower-triangular integer L."""
    D = [Fraction(rng.choice([1, 2, 4, 8, 3, 5, 16]), rng.choice([1, 2, 4, 8, 16])) for _ in range(n)]
    L = [[Fraction(int(i == j)) for j in range(n)] for i in range(n)]
    if dense:
        for i in range(n):
            for j in range(i):
                L[i][j] = Fraction(rng.randint(-2, 2), rng.choice([1, 2]))
    S = [[sum(L[i][k] * D[k] * L[j][k] for k in range(n)) for j in range(n)] for i in range(n)]
    return S


def gen_history(rng, maxlen, vary_dim=True):
    k = rng.randint(1, maxlen)
    base = rng.randint(1, 6)
    # the unit the measurements are expressed in: the statistic does not depend on it. Arc-second level angles (innovations of 1e-5, covariance
    # entries of 1e-11, off-diagonal ones far below any absolute tolerance) are what the filters really hand over
    unit = rng.choice([Fraction(1), Fraction(1), Fraction(1, 1000), Fraction(1, 200000), Fraction(1, 10**6), Fraction(1000)])
    h = []
    for _ in range(k):
        n = rng.randint(1, 8) if vary_dim and rng.random() < 0.6 else base
        scale = rng.choice([1, 1, 1, 4, 16])  # occasional large innovations (maneuver-like)
        nu = [Fraction(rng.randint(-24, 24) * scale, 8) * unit for _ in range(n)]
        S = [[x * unit * unit for x in row] for row in gen_spd(rng, n, rng.random() < 0.6)]
        h.append({"nu": nu, "S": S})
    return h


def alpha_with_bound(value, dof, max_ulps=4000):
    """a significance whose upper-tail bound for `dof` is exactly the double `value` (None if the scan does not meet one)"""
    from numpy import nextafter
    from scipy.stats import chi2

    centre = float(chi2.sf(value, dof))
    if not 0 < centre < 1:
        return None
    up = down = centre
    for _ in range(max_ulps):
        for cand in (up, down):
            if float(chi2.isf(cand, dof)) == value:
                return float(cand)
        up, down = float(nextafter(up, 1.0)), float(nextafter(down, 0.0))
    return None


def on_bound_case(rng):
    """a history whose statistic is exact in binary64 (dyadic innovations, power-of-two diagonal covariances, dyadic delta) and a significance
    whose bound IS that statistic at the last step: 'reaches the bound' includes equality, and only such a case can tell `<` from `<=`"""
    kind = rng.choice(["standard", "sliding", "fading"])
    h = []
    for _ in range(rng.randint(1, 5)):
        n = rng.randint(1, 4)
        h.append({"nu": [Fraction(rng.randint(-8, 8), 2) for _ in range(n)],
                  "S": [[Fraction(2) ** rng.randint(-2, 2) if i == j else Fraction(0) for j in range(n)] for i in range(n)]})
    if all(x == 0 for x in h[-1]["nu"]):
        h[-1]["nu"][0] = Fraction(3, 2)
    c = {"kind": kind, "alpha": 0.05, "h": h, "scale": Fraction(2)}
    if kind == "sliding":
        c["w"] = rng.choice([1, 2, 3])
    if kind == "fading":
        c["delta"] = Fraction(rng.choice([4, 8, 12]), 16)
    m, dof = documented(c)[-1]
    if m <= 0 or Fraction(float(m)) != m:
        return None
    a = alpha_with_bound(float(m), float(dof))
    if a is None:
        return None
    c["alpha"] = a
    c["on_bound"] = True
    return c


def cases(run: Run):
    rng = run.rng
    out = [dec(c) for c in corpus(PID)]  # stored as JSON: rationals as strings
    for _ in range(run.n(12, 60)):
        c = on_bound_case(rng)
        if c is not None:
            out.append(c)
    for _ in range(run.n(150, 2500)):
        kind = rng.choice(["standard", "sliding", "fading"])
        # significances over the whole open interval: the usual ones, very strict ones (1 - alpha rounds to 1 below 1.1e-16) and lax ones
        alpha = rng.choice(ALPHAS_USUAL) if rng.random() < 0.6 else rng.choice(ALPHAS_EXTREME)
        c = {"kind": kind, "alpha": alpha, "h": gen_history(rng, run.n(25, 50))}
        if rng.random() < 0.25 and len(c["h"]) >= 3:
            # one wildly inconsistent observation (a mis-associated track: an innovation of a billion sigma) somewhere in the past; the steps after
            # it are ordinary again and the statistic must be the documented sum over them once the outlier has left the window
            j = rng.randint(0, len(c["h"]) - 2)
            f = Fraction(2) ** rng.choice([28, 30, 32, 34])
            c["h"][j]["nu"] = [x * f if x != 0 else f / 8 for x in c["h"][j]["nu"]]
            c["outlier_at"] = j
        if kind == "sliding":
            c["w"] = rng.choice([1, 2, 3, 4, 4, 5, 8, 12])
        if kind == "fading":
            c["delta"] = Fraction(rng.choice([1, 2, 4, 6, 7, 13, 15]), 16)
        c["scale"] = Fraction(rng.choice([8, 9, 12, 16, 32, 80]), 8)
        if rng.random() < 0.4:
            calibrate(c, rng.choice([-0.3, -1e-2, -1e-4, 1e-4, 1e-2, 0.3, 3.0]))
        out.append(c)
    return out


ALPHAS_USUAL = [0.05, 0.01, 0.001, 0.1, 0.5]
ALPHAS_EXTREME = [1e-6, 1e-9, 1e-12, 1e-15, 1e-17, 1e-30, 0.9, 0.999, 1 - 1e-9]


def calibrate(c, eps):
    """rescale the last innovation so that the documented statistic of the last step is (1 + eps) x its bound: decisions are then
    exercised next to the bound for every significance, not only where random innovations happen to land"""
    from scipy.stats import chi2

    h = c["h"]
    m1, dof = documented(c)[-1]
    q = exact_q(h[-1])
    if q == 0:
        return
    # the statistic is affine in the last step's q: m(s) = m1 + coef * q * (s^2 - 1)
    coef = Fraction(1) if c["kind"] != "fading" else 1 + Fraction(c["delta"])
    target = Fraction(float(chi2.isf(c["alpha"], float(dof))) * (1 + eps))
    s2 = 1 + (target - m1) / (coef * q)
    if s2 <= 0:
        return
    sc = Fraction(float(s2) ** 0.5).limit_denominator(1 << 16)
    if sc > 0:
        h[-1]["nu"] = [x * sc for x in h[-1]["nu"]]
        c["calibrated"] = eps


def make_detector(c):
    from resonaate.estimation.maneuver_detection import FadingMemoryNis, SlidingNis, StandardNis

    if c["kind"] == "standard":
        return StandardNis(c["alpha"])
    if c["kind"] == "sliding":
        return SlidingNis(c["alpha"], window_size=c["w"])
    return FadingMemoryNis(c["alpha"], delta=float(c["delta"]))


def impl_run(c, scale_last=None):
    """Feed the history to the real detector; capture what it hands to the hypothesis test."""
    from resonaate.physics.statistics import oneSidedChiSquareTest

    det = make_detector(c)
    rec = []

    def capture(metric, alpha, dof, runs=1):
        rec.append((float(metric), float(alpha), float(dof)))
        return oneSidedChiSquareTest(metric, alpha, dof)

    outs = []
    for k, step in enumerate(c["h"]):
        nu = np.array([float(x) for x in step["nu"]])
        if scale_last is not None and k == len(c["h"]) - 1:
            nu = nu * float(scale_last)
        S = np.array([[float(x) for x in r] for r in step["S"]])
        det2 = copy.deepcopy(det)
        d1 = bool(det(nu, S, test=capture))
        d2 = bool(det2(nu, S))  # default test path, same state
        outs.append({"detected": d1, "detected_default": d2, "metric_attr": float(det.metric), "test_args": rec[-1]})
    return outs


def exact_q(step, scale=1):
    nu = [Fraction(x) * scale for x in step["nu"]]
    Si = frac_inv(step["S"])
    return sum(nu[i] * Si[i][j] * nu[j] for i in range(len(nu)) for j in range(len(nu)))


def documented(c, scale_last=None):
    """The documented statistic and dof after each step, computed independently (exact)."""
    qs, dims, out = [], [], []
    for k, step in enumerate(c["h"]):
        sc = scale_last if (scale_last is not None and k == len(c["h"]) - 1) else 1
        qs.append(exact_q(step, sc))
        dims.append(len(step["nu"]))
        if c["kind"] == "standard":
            out.append((qs[-1], Fraction(dims[-1])))
        elif c["kind"] == "sliding":
            w = c["w"]
            out.append((sum(qs[-w:]), Fraction(sum(dims[-w:]))))
        else:
            d = Fraction(c["delta"])
            faded = sum(d**j * q for j, q in enumerate(reversed(qs)))
            out.append(((1 + d) * faded, Fraction(sum(dims), len(dims)) * (1 + d) / (1 - d)))
    return out


def model_line(c):
    def obs(step):
        return f"{fmt_list(step['nu'])} {fmt_mat(frac_inv(step['S']))}"

    body = f"{len(c['h'])} " + " ".join(obs(s) for s in c["h"])
    if c["kind"] == "standard":
        return f"det.standard {body}"
    if c["kind"] == "sliding":
        return f"det.sliding {c['w']} {body}"
    return f"det.fading {fmt(c['delta'])} {body}"


def enc(c):
    def e(v):
        if isinstance(v, Fraction):
            return fmt(v)
        if isinstance(v, list):
            return [e(x) for x in v]
        if isinstance(v, dict):
            return {k: e(x) for k, x in v.items()}
        return v

    return e(c)


def dec(c):
    def d(v):
        if isinstance(v, str):
            return Fraction(v)
        if isinstance(v, list):
            return [d(x) for x in v]
        if isinstance(v, dict):
            return {k: d(x) for k, x in v.items()}
        return v

    out = dict(c)
    out["h"] = [{"nu": d(s["nu"]), "S": d(s["S"])} for s in c["h"]]
    for k in ("delta", "scale"):
        if k in out:
            out[k] = Fraction(out[k])
    return out


TOL = 1e-8


def oracle(run: Run, c, impl):
    """The property on the real detector's outputs."""
    from scipy.stats import chi2

    fails = []
    if impl[0] != "ok":
        return [(f"{c['kind']}:raises", f"detector raised {impl[1]}")]
    outs = impl[1]
    doc = documented(c)
    for k, (o, (m, dof)) in enumerate(zip(outs, doc)):
        met, alpha, idof = o["test_args"]
        run.worse(f"{c['kind']}.metric", abs(met - float(m)) / max(1.0, abs(float(m))))
        if not close(met, m, TOL) or not close(o["metric_attr"], m, TOL):
            fails.append((f"{c['kind']}:metric", f"step {k}: metric {met} / reported {o['metric_attr']} but documented statistic is {float(m)}"))
            break
        if not close(idof, dof, 1e-12):
            fails.append((f"{c['kind']}:dof", f"step {k}: tested with dof {idof} but documented dof is {float(dof)}"))
            break
        if abs(alpha - c["alpha"]) > 0:
            fails.append((f"{c['kind']}:alpha", f"step {k}: tested at significance {alpha}, configured {c['alpha']}"))
            break
        bound = float(chi2.isf(c["alpha"], float(dof)))
        margin = float(m) - bound
        if met == float(m) == float(chi2.isf(alpha, idof)) and Fraction(met) == m:
            # the statistic is exact and IS the bound for the (verified) arguments the detector tests with: it reaches the bound
            run.count("on-the-bound")
            if not (o["detected"] and o["detected_default"]):
                fails.append((f"{c['kind']}:decision-on-bound", f"step {k}: the statistic {met} equals the bound chi2.isf({alpha}, {idof}) "
                              f"but the detector said {o['detected']}/{o['detected_default']}: a statistic that reaches the bound is a detection"))
                break
        elif abs(margin) <= 1e-7 * max(1.0, abs(bound)):
            run.boundary_skips += 1
        else:
            want = margin >= 0
            run.count(f"detected:{want}")
            if o["detected"] != want or o["detected_default"] != want:
                fails.append((f"{c['kind']}:decision", f"step {k}: metric {float(m)} bound {bound} (dof {float(dof)}) but detector said {o['detected']}/{o['detected_default']}"))
                break
    # scaling the latest innovation up never turns a detection into a non-detection
    if outs and outs[-1]["detected"]:
        sc = guarded(impl_run, c, c["scale"])
        run.count("scaled-detections")
        if sc[0] != "ok":
            fails.append((f"{c['kind']}:raises", f"scaled run raised {sc[1]}"))
        elif not sc[1][-1]["detected"]:
            fails.append((f"{c['kind']}:scale", f"scaling the last innovation by {c['scale']} turned a detection into a non-detection"))
    return fails


def run_cases(run: Run, cs):
    impls = [guarded(impl_run, c) for c in cs]
    outs = run.model([model_line(c) for c in cs])
    for idx, (c, i) in enumerate(zip(cs, impls)):
        jc = enc(c)
        dims = {len(s["nu"]) for s in c["h"]}
        run.count("alpha:" + ("usual" if c["alpha"] in ALPHAS_USUAL else f"{c['alpha']:.0e}" if c["alpha"] < 0.5 else "lax"))
        if "calibrated" in c:
            run.count("calibrated-to-bound")
        run.case(c["kind"], jc if len(c["h"]) <= 3 else {**{k: v for k, v in jc.items() if k != "h"}, "h_len": len(c["h"]), "h_first": jc["h"][0]},
                 nontrivial=len(c["h"]) > 1, branch=("vary-dim" if len(dims) > 1 else "fixed-dim"))
        if c["kind"] == "sliding":
            run.count("window-full" if len(c["h"]) > c["w"] else "window-filling")
        if outs is not None:
            run.model_compared += 1
            mo = outs[idx]
            if mo == "bad-op" or i[0] != "ok":
                run.disagree(c["kind"], jc, i[0], mo)
            else:
                t = Toks(mo)
                for k, o in enumerate(i[1]):
                    m, dof = t.rat(), t.rat()
                    if not close(o["test_args"][0], m, TOL) or not close(o["test_args"][2], dof, 1e-12):
                        run.disagree(c["kind"], jc, f"step {k}: {o['test_args']}", f"{float(m)} {float(dof)}")
                        break
        for key, what in oracle(run, c, i):
            run.fail(key, jc, what)


def search(run: Run):
    rng = run.rng
    for i in range(600):
        kind = rng.choice(["standard", "sliding", "fading"])
        c = on_bound_case(rng) if i % 4 == 0 else None
        c = c or {"kind": kind, "alpha": rng.choice([0.05, 0.01, 0.3]), "h": gen_history(rng, 30), "scale": Fraction(rng.choice([9, 16, 40]), 8)}
        if kind == "sliding" and "on_bound" not in c:
            c["w"] = rng.choice([1, 2, 3, 4, 6])
        if kind == "fading" and "on_bound" not in c:
            c["delta"] = Fraction(rng.choice([2, 8, 13]), 16)
        f = oracle(run, c, guarded(impl_run, c))
        if f:
            return (f[0][0], enc(c), f[0][1])
    return None


def main():
    run = Run(
        PID,
        ["RV.Props.C17", "RV.Bridge.Detect", "RV.Bridge.DetectProps"],
        ["RV/Model/Detectors.lean"],
        "Lean 4 induction over the history (state invariants of the sliding deques and the fading accumulator), "
        "differential correspondence with the real detector objects via their test= hook",
        trusted_extra=[
            "scipy.stats.chi2.isf is an oracle (the bound B); numpy.linalg.inv is compared against exact rational inverses to 1e-8",
        ],
    )
    run.rule = (
        "random histories of 1-25 (thorough 1-50) steps, measurement dimension 1-8 varying per step, diagonal and dense SPD "
        "covariances with exact rational inverses, occasional 4x/16x innovations; non-trivial = more than one step; distinct by hash"
    )
    run.assumptions = ["decisions within 1e-7 relative of the chi-square bound are counted as boundary skips, not compared"]
    run.lean_phase()
    if run.args.replay:
        rp = json.loads(Path(run.args.replay).read_text())
        cs = [dec(rp["case"])] if rp.get("kind") == "failing-input" else cases(run)
    else:
        cs = cases(run)
    run_cases(run, cs)
    run.finish(search)


if __name__ == "__main__":
    main_guard(main)
