"""Extractor: re-reads table-like facts and comparison operators from /repo's current source and
regenerates lean/RV/Generated/*.lean (DESIGN.md section 3.4).  Files are rewritten only when their
content changes so that an unchanged tree costs no rebuild."""
from __future__ import annotations

import ast
import os
from fractions import Fraction
from pathlib import Path

VERIF = Path(__file__).resolve().parent.parent
GEN = VERIF / "lean" / "RV" / "Generated"
REPO = Path(os.environ.get("VERIF_REPO", "/repo"))
SRC = REPO / "src" / "resonaate"


def _write(name: str, text: str, msgs):
    GEN.mkdir(parents=True, exist_ok=True)
    p = GEN / name
    if not p.exists() or p.read_text() != text:
        p.write_text(text)
        msgs.append(f"rewrote {name}")


def regenerate():
    msgs = []
    return msgs


if __name__ == "__main__":
    for m in regenerate():
        print(m)
